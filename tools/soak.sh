#!/bin/bash
# Soak: every check at several VERIF_SEED values (and optionally the thorough tier); prints one line per run.
# Usage: soak.sh "<seeds>" "<tier>" [ids...]
SEEDS=${1:-"2 3 4 5 6"}; TIER=${2:-quick}; shift; shift
IDS=${@:-"C01 C02 C03 C04 C05 C06 C07 C08 C09 C10 C11 C12 C13 C14 C15 C16 C17 C18 C19 C20"}
cd "$(dirname "$0")/.."
for s in $SEEDS; do
  for p in $IDS; do
    out=$(VERIF_SEED=$s python3 tools/check.py $p --tier $TIER 2>&1); rc=$?
    echo "seed=$s $p rc=$rc $(echo "$out" | grep SUMMARY | cut -c1-160)"
    if [ $rc -ne 0 ]; then echo "$out" | grep -E "^VIOLATION|^  key=|HARNESS" | cut -c1-400 | head -8; fi
  done
done
