"""Per-property wording for MANIFEST.json (levels, trusted base, technique)."""
HOOK_COMMITS = []
NOT_APPLICABLE = {}

NOTE_COMMON = ("Trusted: Eigen 3.4 dense solvers in long double as reference, the sanitizer runtimes (a positive-control canary is run "
               "before each check), the harness generators/oracles. Verdict = held on the executions observed; evidence lists them.")

TEXT = {
    "C18": dict(
        level_text="Bounded-exhaustive exploration: every vector over tie-rich real and complex alphabets up to length 7 (quick 6/5) through the real "
                   "argsort/SortEigenvalue code under ASan+UBSan, each result judged by a permutation/monotonicity/BothEnds-prefix oracle; plus random long "
                   "vectors. Exhaustive over the stated finite box, sampled beyond it.",
        design_ref="DESIGN.md section 3, C18",
        level_note=NOTE_COMMON,
        technique="runtime oracle over exhaustively enumerated inputs (ASan+UBSan build)"),
    "C19": dict(
        level_text="Exhaustive sweep of all 2^31-2 generator states and all library seed forms against an independent 64-bit reference of the "
                   "Park-Miller recurrence (plain build; subsampled again under ASan+UBSan), orbit length, draw ranges for six scalar types, "
                   "plus a purity monitor (thread / process / heap-history digests, ltrace+strace showing no RNG, clock or entropy call).",
        design_ref="DESIGN.md section 3, C19",
        level_note=NOTE_COMMON + " Platform independence is only observed on this machine.",
        technique="exhaustive runtime comparison with a reference recurrence + ltrace/strace purity monitor"),
    "C08": dict(
        level_text="Exploration by direct calls of the three QR helper classes on ~43k (quick) generated Hessenberg/tridiagonal matrices per run "
                   "(all subdiagonal zero masks for n<=8, exact-eigenvalue and diagonal-entry shifts, graded, deflated, extreme scalings, 3 scalar types) under ASan+UBSan; "
                   "every documented identity (Q orthogonal, QR=H-sI, R exactly triangular, Q'HQ value and exact shape, each apply_* overload incl. Map and strided block, "
                   "double-shift first column) judged in long double against 64*n*eps*(||H||+|s|).",
        design_ref="DESIGN.md section 3, C08",
        level_note=NOTE_COMMON,
        technique="runtime oracle (extended-precision identities) over generated inputs, ASan+UBSan build"),
    "C09": dict(
        level_text="Exploration by direct calls of TridiagEigen, UpperHessenbergSchur and UpperHessenbergEigen on ~27k (quick) generated matrices per run, sizes 2..64, "
                   "twelve entry classes incl. defective, companion, repeated, zero and 1e+-150-scaled input, 3 scalar types, under ASan+UBSan; backward-error identities, "
                   "exact structural conventions (quasi-triangular T, exact zero imaginary parts / adjacent exact conjugate pairs) and trace power sums judged in long double.",
        design_ref="DESIGN.md section 3, C09",
        level_note=NOTE_COMMON + " A std::runtime_error on a finite input is reported (the reference solver converges on every generated class).",
        technique="runtime oracle (extended-precision identities + exact structure tests) over generated inputs, ASan+UBSan build"),
    "C10": dict(
        level_text="Exploration by direct calls of BKLDLT (and the dense wrappers built on it) on ~24k (quick) scenarios per run: sizes 1..80, eight matrix classes, shifts equal/near "
                   "diagonal entries, every triangle x storage order x plain/Map/block/expression presentation with the unused triangle set to NaN, structurally singular inputs and "
                   "object reuse, 4 scalar types incl. complex Hermitian, under ASan+UBSan; residuals judged in long double.",
        design_ref="DESIGN.md section 3, C10",
        level_note=NOTE_COMMON + " Nonsingularity of a generated input is decided by a long-double full-pivoting LU.",
        technique="runtime oracle (extended-precision residual, status and exception checks, NaN-poisoned unused triangle) over generated inputs, ASan+UBSan build"),
}
