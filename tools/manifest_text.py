"""Per-property wording for MANIFEST.json (levels, trusted base, technique)."""
HOOK_COMMITS = ["c788236", "540187a", "a1185f5", "14d2ccf"]
NOT_APPLICABLE = {}

NOTE_COMMON = ("Trusted: Eigen 3.4 dense solvers in long double as reference, the sanitizer runtimes (a positive-control canary is run "
               "before each check), the harness generators/oracles. Verdict = held on the executions observed; evidence lists them.")

TEXT = {
    "C18": dict(
        level_text="Bounded-exhaustive exploration: every vector over tie-rich real and complex alphabets up to length 7 (quick 6/5) through the real "
                   "argsort/SortEigenvalue code under ASan+UBSan, each result judged by a permutation/monotonicity/BothEnds-prefix oracle; plus random long "
                   "vectors; and every one of the nine rules as selection and as sorting argument of six solver classes (undefined ones must be rejected). Exhaustive over the stated finite box, sampled beyond it.",
        design_ref="DESIGN.md section 3, C18",
        level_note=NOTE_COMMON,
        technique="runtime oracle over exhaustively enumerated inputs (ASan+UBSan build)"),
    "C19": dict(
        level_text="Exhaustive sweep of all 2^31-2 generator states and all library seed forms against an independent 64-bit reference of the "
                   "Park-Miller recurrence (plain build; subsampled again under ASan+UBSan), orbit length, draw ranges for six scalar types, "
                   "the stream of one generator object under mixed groupings of random() / random_vec() calls, a third build with g++ (behaviour the standard leaves to the compiler), "
                   "plus a purity monitor (thread / process / heap-history digests, ltrace+strace showing no RNG, clock or entropy call) whose target runs every site where the library draws random numbers "
                   "(default init() of both solver bases, the complex-shift probe vector, expand_basis first and later tries; reach is reported and required), and a solver-level stream oracle: a recording "
                   "operator sees the default start vector (stream of seed 0) and every first-try restart vector (stream of seed 2i), over 1-3 default init()/compute() sessions on one solver object and with several solvers of one instantiation calling init() at the same time.",
        design_ref="DESIGN.md section 3, C19",
        level_note=NOTE_COMMON + " Platform independence is only observed on this machine.",
        technique="exhaustive runtime comparison with a reference recurrence + ltrace/strace purity monitor"),
    "C08": dict(
        level_text="Exploration by direct calls of the three QR helper classes on ~43k (quick) generated Hessenberg/tridiagonal matrices per run "
                   "(all subdiagonal zero masks for n<=8, exact-eigenvalue and diagonal-entry shifts, graded, deflated, extreme scalings, 3 scalar types) under ASan+UBSan; "
                   "every documented identity (Q orthogonal, QR=H-sI, R exactly triangular, Q'HQ value and exact shape, each apply_* overload incl. Map and strided block, "
                   "double-shift first column; output arguments that are empty, already n x n with other content, or of another size) judged in long double against 64*n*eps*(||H||+|s|).",
        design_ref="DESIGN.md section 3, C08",
        level_note=NOTE_COMMON,
        technique="runtime oracle (extended-precision identities) over generated inputs, ASan+UBSan build"),
    "C09": dict(
        level_text="Exploration by direct calls of TridiagEigen, UpperHessenbergSchur and UpperHessenbergEigen on ~27k (quick) generated matrices per run, sizes 2..64, "
                   "twelve entry classes incl. defective, companion, repeated, zero and 1e+-150-scaled input, 3 scalar types, under ASan+UBSan; backward-error identities, "
                   "exact structural conventions (quasi-triangular T, exact zero imaginary parts / adjacent exact conjugate pairs) and trace power sums judged in long double. "
                   "The iteration-limit clause is observed through a guarded failpoint that lowers the limit (~6700 give-ups per quick run on new and reused objects): std::runtime_error and nothing else, "
                   "a compute() that returns normally equals an unlimited run bit for bit, no numbers from the accessors after a failed compute(), bitwise recovery.",
        design_ref="DESIGN.md section 3, C09",
        level_note=NOTE_COMMON + " A std::runtime_error on a finite input is reported (the reference solver converges on every generated class).",
        technique="runtime oracle (extended-precision identities + exact structure tests) over generated inputs + failpoint-driven monitor of the iteration-limit path, ASan+UBSan build"),
    "C10": dict(
        level_text="Exploration by direct calls of BKLDLT (and the dense wrappers built on it) on ~24k (quick) scenarios per run: sizes 1..80, eight matrix classes, shifts equal/near "
                   "diagonal entries, every triangle x storage order x plain/Map/block/expression presentation with the unused triangle set to NaN, structurally singular inputs and "
                   "object reuse, right-hand sides that are dense, of the form (A - sigma I) w, or have exact zeros (unit vectors, leading / trailing / scattered support, the zero vector), "
                   "4 scalar types incl. complex Hermitian, under ASan+UBSan; residuals judged in long double.",
        design_ref="DESIGN.md section 3, C10",
        level_note=NOTE_COMMON + " Nonsingularity of a generated input is decided by a long-double full-pivoting LU.",
        technique="runtime oracle (extended-precision residual, status and exception checks, NaN-poisoned unused triangle) over generated inputs, ASan+UBSan build"),
    "C01": dict(
        level_text="Exploration: ~7000 (quick) random init()/compute() histories per run on the seven symmetric/Hermitian solver configurations in float/double/long double under ASan+UBSan; "
                   "after EVERY compute() whatever the accessors hand back is judged in long double (unit norm, residual against tol*scale + rounding with the back-transformed scale in shift mode, "
                   "orthonormality). The seeded exploration draws from the domain on which the repaired tree is clean; a fixed seed-independent corpus covers the finding-prone domain "
                   "(breakdown-prone classes, far-from-unit scales, tiny problems; second part: the well-behaved classes at norms 1e-12..1e-3 and 1e3..1e8 with tolerances 1e-11..1e-14 and runs of up to "
                   "1000 restarts) and its failing members are listed one by one in known_findings.json. Every exploration history ends with a start-vector scale-invariance probe: init(v0) and init(2^e v0) "
                   "followed by the same compute() must give the same bits (eigenvector + perturbation and gaussian starts).",
        design_ref="DESIGN.md sections 3 (C01) and 4",
        level_note=NOTE_COMMON,
        technique="runtime oracle (extended-precision residual / orthonormality monitor at the public accessors) over seeded histories + fixed regression corpus, ASan+UBSan build"),
    "C02": dict(
        level_text="Exploration as C01 for GenEigsSolver, GenEigsRealShiftSolver and GenEigsComplexShiftSolver (dense and sparse), float/double/long double: complex residual against "
                   "tol*scale (derived back-transformation bounds for the real and the complex shift, the latter with the conditioning of the rejected root), unit norm, no duplicated pair at a simple "
                   "eigenvalue; clean-domain seeded exploration + fixed corpus over the finding-prone domain.",
        design_ref="DESIGN.md sections 3 (C02) and 4",
        level_note=NOTE_COMMON,
        technique="runtime oracle (extended-precision residual monitor at the public accessors) over seeded histories + fixed regression corpus, ASan+UBSan build"),
    "C05": dict(
        level_text="Exploration: a consistency monitor applied after every compute() of ~3900 (quick) random call interleavings over 17 solver configurations: counts, status, eigenvectors(m) for every m, "
                   "sorting order, value/column pairing, num_operations() against a counting operator wrapper, restarts (hook events) against maxit, NotComputed/empty before the first compute(); and after EVERY step of a history (a new init() after a compute, accessor reads, calls that threw) the accessors must describe one and the same set of pairs. The same driver, built without a sanitizer, runs its cases under valgrind memcheck as well "
                   "(definedness of every value that reaches a branch or an address).",
        design_ref="DESIGN.md section 3, C05",
        level_note=NOTE_COMMON,
        technique="runtime API-consistency monitor with counting operator wrapper and factorization hook events, ASan+UBSan build; valgrind memcheck on the same driver"),
    "C06": dict(
        level_text="Exploration: history checker comparing, bit for bit, the observed init(v); compute(args) on a fresh solver, on a solver reused after a random pre-history (incl. non-converging and "
                   "throwing computes - thrown at once, thrown late: an unsupported sorting rule is rejected only after the iteration, and thrown from the inside: a dense eigen kernel that gives up at a guarded failpoint) and on a second solver sharing the operator object; operator probed "
                   "with a fixed vector before/after compute() and after every step of the pre-history; every sampled case run again alone in a fresh process (digest comparison with the run inside the worker's sequence); the C library's generators are interposed and a call from library code is a finding. 3000 (quick) triples over 17 configurations.",
        design_ref="DESIGN.md section 3, C06",
        level_note=NOTE_COMMON + " Davidson / PartialSVD reuse is covered by C15 / C16.",
        technique="runtime history checker (bitwise snapshot comparison, operator probe), ASan+UBSan build; valgrind memcheck on the same driver"),
    "C13": dict(
        level_text="Exploration under two sanitizer builds (Eigen assertions on / release-like): ~4500 hostile runs per build and tier over 17 solver configurations + PartialSVD with degenerate matrices, "
                   "validating operator wrapper, operator-application bound plus a CPU-seconds budget per case for loops that apply no operator (30 CPU-s where cases take milliseconds; confirmed by "
                   "re-running the case alone), finiteness/exception classifier, every hostile case once more with a dense eigen kernel failing at a guarded failpoint (documented exception type or finite results, ~4000 injected failures per build); plus a small-scope enumeration (~12000 states quick) of the private restart bookkeeping "
                   "(nev_adjusted + the real restart) through guarded friend access for every ncv <= 10 (14 thorough).",
        design_ref="DESIGN.md section 3, C13",
        level_note=NOTE_COMMON + " Buckling mode with a singular K_G (eigenvalues at infinity) is outside the documented domain and not generated.",
        technique="AddressSanitizer/UBSan + validating/counting operator wrapper + outcome classifier over hostile workloads; valgrind memcheck on the same driver (uninitialised reads, byte-exact addressability); CPU-budget termination monitor; small-scope state enumeration through guarded friend"),
    "C14": dict(
        level_text="Fault enumeration, exhaustive in the fault index: for 102 (quick) solver/input pairs every operator application index of the fault-free run (A-operator and B-operator) is faulted with an object derived from std::exception "
                   "and with one that is not (plain struct / enum value; ~30000 faulted runs) plus ~9000 fault pairs; exception identity, call site, bitwise recovery against the baseline, allocated bytes and LeakSanitizer.",
        design_ref="DESIGN.md section 3, C14",
        level_note=NOTE_COMMON,
        technique="exhaustive fault injection at the operator wrapper with bitwise baseline comparison, ASan+LSan build"),
    "C20": dict(
        level_text="Exploration over schedules under ThreadSanitizer: 36 (quick) / ~1000 (thorough) launches of 2..16 threads running permuted task lists over all solver configurations with private and "
                   "shared-const operators (Sym, Herm and Gen product wrappers) and injected yields; zero TSan reports and bitwise agreement with sequential results; overlap of task executions is measured and reported. "
                   "Every case is run again alone in a fresh process and its digest compared with the one produced inside the worker's sequence (which starts with a prelude of much larger problems): hidden process-wide state. The third build also runs Davidson (dense / sparse wrapper shared by the threads; generic and decoupled-coordinate matrices), "
                   "PartialSVDSolver and LOBPCGSolver as tasks, and every build interposes the C library's generators (rand, random, *rand48, srand): a call from library code is a finding (they sit behind a lock, so TSan is silent about them).",
        design_ref="DESIGN.md section 3, C20",
        level_note=NOTE_COMMON,
        technique="ThreadSanitizer + bitwise concurrent-vs-sequential comparison over randomized thread launches + interposed libc generators"),
    "C07": dict(
        level_text="Exploration with an online invariant checker installed at the guarded hook: ~100000 (quick) hook events per run over solver runs of 11 configurations (every spectral transformation "
                   "and inner product) and over the Arnoldi/Lanczos classes driven directly through restart sequences (exact and arbitrary, single and double shifts); each event is judged against an "
                   "independently built dense extended-precision model of the iterated operator; 1-3 init sessions per solver object and a hand-over event when compute() returns (k = ncv and all invariants); "
                   "clean-domain seeded exploration + fixed corpus over the finding-prone domain.",
        design_ref="DESIGN.md sections 3 (C07) and 4",
        level_note=NOTE_COMMON + " The checker reads the factorization through the guarded friend declaration; hooks are additive and off without SPECTRA_VERIF.",
        technique="online trace checker at guarded hook points (invariant assertions against an extended-precision reference model), ASan+UBSan build"),
    "C03": dict(
        level_text="Exploration: ~5600 (quick) random call histories per run on 14 instantiations of the generalized symmetric solvers (all five modes, dense/sparse pairings, both triangles, both storage "
                   "orders, three scalar types) with only the documented triangle stored; pencil residual in the user's original pencil, M-orthonormality and membership of every returned value in the "
                   "reference generalized spectrum judged in long double with mode-specific back-transformation bounds; clean-domain seeded exploration + fixed corpus (condition up to 1e8).",
        design_ref="DESIGN.md sections 3 (C03) and 4",
        level_note=NOTE_COMMON,
        technique="runtime oracle (extended-precision pencil residual / M-orthonormality monitor at the public accessors) over seeded histories + fixed regression corpus, ASan+UBSan build"),
    "C04": dict(
        level_text="Exploration with two runtime oracles over ~15000 (quick) runs of 17 solver configurations on spectra prescribed by construction: (1) on every run and outcome, the returned values "
                   "(mapped to the iterated spectrum) must be the rule's top choice among the Ritz values of the final factorization (read through the guarded friend) - deterministic, catches any "
                   "selection-logic slip; (2) when Successful, the returned set must equal the rule's top-k of the true spectrum - judged strictly for ncv = n, where it is exact for every rule, and on a "
                   "fixed corpus elsewhere (implicit restart with early stopping misses sporadically; observed misses are counted in the evidence and the failing corpus members are listed). "
                   "Half of the cases then ask the same object again, without init(), for a different rule and judge that answer with both oracles. A second corpus part repeats the construction with spectrum and shifts "
                   "multiplied by 1e-12..1e-4 / 1e4..1e8 (every oracle here is relative to the key spread).",
        design_ref="DESIGN.md sections 3 (C04) and 4",
        level_note=NOTE_COMMON + " Davidson, PartialSVD and LOBPCG selection is judged in C15, C16, C17.",
        technique="runtime reference-model comparison (prescribed spectra) + Ritz-relative selection oracle through guarded friend access; plain build"),
    "C11": dict(
        level_text="Exploration over the enumerated configuration space of the 16 wrapper classes (~150 instantiations incl. all 64 SymShiftInvert combinations, both storage-index types, three scalar "
                   "types) at sizes 1, 2 and random n: extended-precision reference comparison of every documented operation, byte-identical outputs under NaN / junk poisoning of the triangle the "
                   "wrapper must not read, every wrapper (both sides of SymShiftInvert) also constructed on a block of a larger matrix, a strided Map, a contiguous Map and an expression (dense) "
                   "or on uncompressed storage, a Map of the compressed arrays, an inner panel of a wider matrix and an expression (sparse) - through a Ref of the caller and handed to the constructor as they are "
                   "(block, inner-stride map, expressions: the wrapper's own Ref must own the evaluated copy) - and every real shift-solve wrapper and SymShiftInvert solved with the shift next to an eigenvalue "
                   "(cond up to 1e12) and a right-hand side (A - sigma I) y0: backward stability whatever the conditioning; under ASan.",
        design_ref="DESIGN.md section 3, C11",
        level_note=NOTE_COMMON,
        technique="runtime oracle (extended-precision reference + metamorphic triangle poisoning) over enumerated template configurations, ASan+UBSan build"),
    "C12": dict(
        level_text="Exhaustive sweep of the stated finite box: ~41000 constructor calls over 17 solver configurations + Davidson + PartialSVD + LOBPCG for n = 1..12 and (nev, ncv) in [-2, n+3]^2, all nine "
                   "rules as selection and sorting on every class in three object states (after init(), after a converged compute() without init(), after a compute() that ran out of iterations), zero start vectors, sigma = 0, every wrapper constructor with every shape up to 4x4; exact exception type, allocated-bytes monitor around "
                   "each rejected call, LeakSanitizer, and bitwise fresh-vs-reused comparison after each rejected call.",
        design_ref="DESIGN.md section 3, C12",
        level_note=NOTE_COMMON + " The documented predicates are taken from the class documentation; general product wrappers legitimately accept rectangular input.",
        technique="exhaustive runtime enumeration of the argument box with exception-type oracle, allocation monitor and LeakSanitizer"),
    "C15": dict(
        level_text="Exploration: ~4400 (quick) Davidson runs over dense and sparse operators, seven matrix classes, all sizes of the search space, four rules, five kinds of initial space (none, orthonormal, non-orthonormal, exactly rank-deficient, unit vectors of decoupled coordinates); finiteness judged "
                   "on every outcome, true residual / unit norm / orthonormality / ordering judged in long double on every Successful run; axis-aligned matrices (exactly zero corrections) form a fixed corpus "
                   "whose failing members are listed.",
        design_ref="DESIGN.md sections 3 (C15) and 4",
        level_note=NOTE_COMMON + " UBSan's null / pointer-overflow checks are off in this one driver: Eigen forms &dst(0,0) of empty matrices internally (0-column products).",
        technique="runtime oracle (extended-precision residual, finiteness, orthonormality, ordering) over generated inputs + fixed regression corpus, ASan+UBSan build"),
    "C16": dict(
        level_text="Exploration: ~2500 (quick) PartialSVDSolver scenarios (tall / wide / square, four storage layouts, five input kinds incl. exactly rank-deficient) each with two successive compute() calls and a "
                   "fresh-solver comparison; finiteness / sign / order / accessor shapes always, accuracy and factor identities against a dense reference SVD for singular values above 1e-4 ||A||; "
                   "matrices with ||A||^2 below the solver's absolute convergence floor form a fixed corpus whose failing members are listed.",
        design_ref="DESIGN.md sections 3 (C16) and 4",
        level_note=NOTE_COMMON,
        technique="runtime oracle (dense reference SVD, extended-precision factor identities, bitwise fresh-vs-reused comparison) over generated inputs + fixed regression corpus, ASan+UBSan build"),
    "C17": dict(
        level_text="Exploration: 4000 (quick) / 40000 (thorough) LOBPCG runs on pencils with prescribed well-separated smallest eigenvalues (positive and indefinite A), with/without B and preconditioner, block sizes incl. the rejected "
                   "ones, cold starts and warm starts (the wanted eigenvectors in descending order, a rotated basis of their span, perturbed; maxit from 0), three ownership modes for the matrices handed over (kept / temporaries / reassigned before compute()); on reported success every clause of the statement is judged against a dense generalized reference, and residuals() is checked against the private iterate read through the guarded friend.",
        design_ref="DESIGN.md section 3, C17",
        level_note=NOTE_COMMON + " UBSan's null / pointer-overflow checks are off in this driver (Eigen-internal empty sparse products).",
        technique="runtime oracle (dense generalized reference, residual identity through guarded friend access) over generated inputs, ASan+UBSan build"),
}
