"""Registry: build flavours and, per property, the jobs (drivers) that decide it."""

COMMON_WARN = ["-Wno-unused-value", "-Wno-deprecated-declarations"]
FLAVOURS = {
    # default for behavioural drivers: memory errors, UB, leaks, Eigen index assertions ON
    "asan": dict(cxx=["clang++"], flags=["-std=c++17", "-O1", "-gline-tables-only", "-fno-omit-frame-pointer",
                                         "-fsanitize=address,undefined", "-fno-sanitize=object-size",
                                         "-fno-sanitize-recover=all", "-DSPECTRA_VERIF"] + COMMON_WARN),
    # as a user's release build: an out-of-range index is a sanitizer report, not an eigen_assert
    "asan-ndebug": dict(cxx=["clang++"], flags=["-std=c++17", "-O1", "-gline-tables-only", "-fno-omit-frame-pointer",
                                                "-fsanitize=address,undefined", "-fno-sanitize=object-size",
                                                "-fno-sanitize-recover=all", "-DSPECTRA_VERIF", "-DNDEBUG"] + COMMON_WARN),
    "tsan": dict(cxx=["g++"], flags=["-std=c++17", "-O1", "-g1", "-fsanitize=thread", "-DSPECTRA_VERIF", "-pthread"] + COMMON_WARN,
                 ldflags=["-pthread"]),
    "plain": dict(cxx=["clang++"], flags=["-std=c++17", "-O2", "-DSPECTRA_VERIF", "-pthread"] + COMMON_WARN, ldflags=["-pthread"]),
    # a second compiler: behaviour the C++ standard leaves to the implementation (evaluation order of function arguments, ...) shows up as a difference
    "gcc-plain": dict(cxx=["g++"], flags=["-std=c++17", "-O2", "-DSPECTRA_VERIF", "-pthread"] + COMMON_WARN, ldflags=["-pthread"]),
    # no sanitizer: the binary that runs under valgrind memcheck (DWARF 4: valgrind 3.19 cannot read clang 14's DWARF 5 forms)
    "memcheck": dict(cxx=["clang++"], flags=["-std=c++17", "-O1", "-gdwarf-4", "-fno-omit-frame-pointer", "-DSPECTRA_VERIF", "-pthread"] + COMMON_WARN, ldflags=["-pthread"]),
    "plain-nohook": dict(cxx=["clang++"], flags=["-std=c++17", "-O2", "-pthread"] + COMMON_WARN, ldflags=["-pthread"]),
}

PROPS = {}


def prop(pid, level, rule, jobs, assumptions=None, exhaustive=False, exhaustive_tiers=None, extras=None, extra_jobs=None):
    PROPS[pid] = dict(level=level, rule=rule, jobs=jobs, assumptions=assumptions or [], exhaustive=exhaustive,
                      exhaustive_tiers=exhaustive_tiers or ["quick", "thorough"], extras=extras or [], extra_jobs=extra_jobs or [])


def alone_vs_sequence_monitor(jobnames, cap_quick, cap_thorough):
    """Extra monitor: every sampled case is run once more ALONE in a fresh process and the digest of what it computed ("G" record) is compared with
    the digest it produced inside its worker's sequence (after a prelude of much larger problems and after all earlier cases of that worker).
    What a solver computes must not depend on what ran before in the process (no function-local statics, caches or globals that outlive an object)."""
    def fn(env):
        import subprocess, os, glob
        from concurrent.futures import ThreadPoolExecutor
        cov, viols = {}, []
        wd = env["workdir"]
        cap = cap_thorough if env["tier"] == "thorough" else cap_quick
        tasks = []
        for name in jobnames:
            exe = env["exes"][name]
            seq = {}
            for lp in glob.glob(os.path.join(wd, "%s.w*.log" % name)):
                for line in open(lp, errors="replace"):
                    if line.startswith("G "):
                        parts = line.split()
                        if len(parts) == 3:
                            seq[int(parts[1])] = parts[2]
            idxs = sorted(seq)
            if len(idxs) > cap:
                step = len(idxs) / float(cap)
                idxs = [idxs[int(k * step)] for k in range(cap)]
            for i in idxs:
                tasks.append((name, exe, i, seq[i]))
            cov["digests_in_sequence/" + name] = len(seq)

        def run(t):
            name, exe, i, want = t
            lp = os.path.join(wd, "alone.%s.%d.log" % (name, i))
            e = env["env_for"]("asan", wd, "alone")
            subprocess.run([exe, "--tier", env["tier"], "--seed", str(env["seed"]), "--only", str(i), "--log", lp], stdout=subprocess.DEVNULL, stderr=subprocess.DEVNULL, env=e, cwd=wd, timeout=900)
            got = None
            try:
                for line in open(lp, errors="replace"):
                    if line.startswith("G "):
                        got = line.split()[2]
                os.remove(lp)
            except (OSError, IndexError):
                pass
            return name, i, want, got

        n = 0
        with ThreadPoolExecutor(max_workers=env["JOBS"]) as pool:
            for name, i, want, got in pool.map(run, tasks):
                if got is None:
                    continue
                n += 1
                if got != want:
                    viols.append(dict(key="result-depends-on-what-ran-before-in-the-process/" + name, idx=i, job=name,
                                      details=dict(digest_in_sequence=want, digest_alone=got, what="the fresh-solver outcome of this case differs between the worker's sequence (after the prelude and earlier cases) and a run of the case alone")))
        cov["cases_compared_alone_vs_sequence"] = n
        if tasks and n == 0:
            raise RuntimeError("alone-vs-sequence monitor compared nothing")
        return cov, viols
    return fn


def memcheck_monitor(mjobs, cap_quick, cap_thorough):
    """Extra monitor: the same driver, built without a sanitizer, run under valgrind memcheck on the first `cap` cases of each job.
    What it adds to ASan/UBSan: reads of uninitialised memory that reach a branch, an address or a system call (ASan does not see those;
    MemorySanitizer is unusable with an uninstrumented libstdc++), and accesses ASan's red zones miss (memcheck tracks every byte's addressability)."""
    def fn(env):
        import subprocess, re, os, tempfile
        from concurrent.futures import ThreadPoolExecutor
        cov, viols = {}, []
        wd = env["workdir"]
        # positive control: memcheck must flag a branch on an uninitialised heap value
        csrc = os.path.join(wd, "mc_canary.cpp")
        open(csrc, "w").write("#include <cstdio>\n#include <cstdlib>\nint main(int c, char**){ int* p = (int*) malloc(16); if (p[c] == 3) puts(\"x\"); free(p); return 0; }\n")
        cexe = os.path.join(wd, "mc_canary")
        subprocess.run(["clang++", "-O0", "-gdwarf-4", csrc, "-o", cexe], check=True)
        r = subprocess.run(["valgrind", "--quiet", "--error-exitcode=97", cexe], stdout=subprocess.PIPE, stderr=subprocess.PIPE, text=True)
        cov["canary_detected"] = (r.returncode == 97)
        if r.returncode != 97:
            raise RuntimeError("valgrind memcheck canary not detected (rc=%d)" % r.returncode)
        cap = cap_thorough if env["tier"] == "thorough" else cap_quick
        tasks = []
        for j in mjobs:
            exe = env["exes"].get(j["name"]) or env["build"](j)
            total = int(subprocess.run([exe, "--tier", env["tier"], "--seed", str(env["seed"]), "--ncases"], stdout=subprocess.PIPE, text=True).stdout.strip() or "0")
            n = min(total, cap)
            nsl = max(1, min(env["JOBS"], n // 50))
            for k in range(nsl):
                tasks.append((j["name"], exe, k * n // nsl, (k + 1) * n // nsl))
            cov["cases/" + j["name"]] = n

        def run(t):
            name, exe, a, b = t
            vlog = os.path.join(wd, "memcheck.%s.%d.txt" % (name, a))
            dlog = os.path.join(wd, "memcheck.%s.%d.log" % (name, a))
            e = dict(os.environ)
            e.pop("VF_CASE_CPU", None)
            p = subprocess.run(["valgrind", "--quiet", "--error-exitcode=97", "--undef-value-errors=yes", "--leak-check=no", "--num-callers=24", "--log-file=" + vlog,
                                exe, "--tier", env["tier"], "--seed", str(env["seed"]), "--worker", "0", "--nworkers", "1", "--start", str(a), "--stop", str(b), "--log", dlog],
                               stdout=subprocess.PIPE, stderr=subprocess.PIPE, text=True, env=e, cwd=wd, timeout=3600)
            done = 0
            try:
                done = sum(1 for l in open(dlog) if l.startswith("E "))
            except OSError:
                pass
            return name, a, b, p.returncode, open(vlog, errors="replace").read() if os.path.exists(vlog) else "", done

        ndone, nerr = 0, 0
        with ThreadPoolExecutor(max_workers=env["JOBS"]) as pool:
            for name, a, b, rc, text, done in pool.map(run, tasks):
                ndone += done
                blocks = re.split(r"\n==\d+== \n", text)
                for blk in blocks:
                    m = re.search(r"==\d+== (Conditional jump or move depends on uninitialised value\(s\)|Use of uninitialised value of size \d+|Invalid (?:read|write) of size \d+|Syscall param .*? uninitialised.*|Invalid free.*|Mismatched free.*|Source and destination overlap.*|Process terminating.*)", blk)
                    if not m:
                        continue
                    nerr += 1
                    kind = re.sub(r"\d+", "N", m.group(1))[:50].strip().replace(" ", "_")
                    f = re.search(r"(?:at|by) 0x[0-9A-F]+: (Spectra::[A-Za-z0-9_:~<>, ]+?)[\(<]", blk)
                    top = f.group(1).strip() if f else "?"
                    viols.append(dict(key="memcheck/%s/%s" % (kind, top), idx=a, job=name, details=dict(slice=[a, b], report=blk[:2500])))
                if rc not in (0, 97):
                    viols.append(dict(key="harness/memcheck-run-failed", idx=a, job=name, details=dict(rc=rc, tail=text[-1500:])))
        cov["cases_run_under_memcheck"] = ndone
        cov["error_reports"] = nerr
        if ndone == 0:
            raise RuntimeError("memcheck monitor ran no case")
        return cov, viols
    return fn


TRUST = ["Eigen 3.4 dense decompositions in long double are the reference for spectra and residuals",
         "compiler sanitizer runtimes (clang 14 ASan/UBSan/LSan, gcc 12 TSan); positive-control canary run before every check",
         "the harness generators and oracles (harness/common)"]

prop("C18", "exploration",
     "every vector of length 0..7 over the real alphabet {-2,-1,-0.0,+0.0,1,2,1e-300} and the complex alphabet "
     "{0,+-1,+-i,1+-i,-1+-i,2} (quick: lengths 0..6 real / 0..5 complex exhaustively, longer lengths sampled; thorough: 0..7 / 0..6) "
     "under every one of the nine rules through argsort and SortEigenvalue, plus random long vectors with heavy ties; "
     "a case is a batch of vectors; non-trivial = a (type, rule, length, has-tie) combination whose permutation is not the identity; "
     "distinct by hash of (type, rule, vector)",
     [dict(name="c18_sort", sources=["c18_sort.cpp"], flavour="asan")],
     assumptions=TRUST, exhaustive=True)


# ------------------------------------------------------------------------------------------ C19
def c19_purity(env):
    """Purity monitor: digests equal across processes / heap histories; no libc RNG, clock or entropy call between the markers."""
    import subprocess, re
    job = dict(name="c19_purity", sources=["c19_purity.cpp"], flavour="plain")
    exe = env["build"](job)
    cov, viols = {}, []

    def run(args, pre=None):
        r = subprocess.run((pre or []) + [exe] + args, stdout=subprocess.PIPE, stderr=subprocess.PIPE, text=True, timeout=600)
        return r

    def digest(r):
        m = re.search(r"DIGEST (\d+)", r.stdout)
        return m.group(1) if m else None

    r0 = run([])
    base = digest(r0)
    m = re.search(r"REACHED inits=(\d+) breakdowns_resolved=(\d+) breakdowns_unresolved=(\d+) exact_rank_two_breakdowns_resolved=(\d+)", r0.stdout)
    if not m:
        raise RuntimeError("purity target did not report what it reached")
    cov["solver_inits_in_region"], cov["breakdowns_resolved_in_region"], cov["breakdowns_unresolved_in_region"], cov["breakdowns_resolved_by_a_later_try"] = [int(x) for x in m.groups()]
    if int(m.group(4)) == 0:
        raise RuntimeError("purity target never reached the later tries of expand_basis: the monitor would be blind there")
    digs = [base]
    for i in range(3):
        digs.append(digest(run(["perturb"])))
    r = run([], pre=["setarch", "x86_64", "-R"])
    if r.returncode == 0:
        digs.append(digest(r))
    cov["process_digests"] = digs
    if base is None or any(d != base for d in digs):
        viols.append(dict(key="purity/process-digest", details=dict(digests=digs)))
    canary_d = digest(run(["canary"]))
    cov["canary_digest_differs"] = (canary_d != base)

    def between(text):
        a, b = text.find("VF_MARK_BEGIN"), text.rfind("VF_MARK_END")
        return text[a:b] if a >= 0 and b > a else None

    LT = "rand+srand+random+srandom+time+clock+clock_gettime+gettimeofday+getrandom+getentropy+rand_r+drand48+lrand48+mrand48+getpid+write"
    for tool, pre in (("ltrace", ["ltrace", "-e", LT]),
                      ("strace", ["strace", "-f", "-e", "trace=getrandom,clock_gettime,gettimeofday,time,getpid,write,openat,open"])):
        try:
            can = run(["canary"], pre=pre)
            seg = between(can.stderr + can.stdout) if tool == "ltrace" else between(can.stderr)
            detected = bool(seg) and ("rand" in seg) if tool == "ltrace" else bool(seg)
            cov[tool + "_canary_detected"] = detected
            if not detected:
                cov[tool + "_note"] = "tracer unavailable or canary not seen; this monitor contributed nothing"
                continue
            r = run([], pre=pre)
            seg = between(r.stderr + r.stdout) if tool == "ltrace" else between(r.stderr)
            if seg is None:
                cov[tool + "_note"] = "markers not found in trace"
                continue
            calls = []
            for line in seg.split("\n")[1:]:
                m = re.match(r"(?:\[pid\s+\d+\]\s+)?(?:[\w.+-]+->)?([a-z_0-9]+)\(", line.strip())
                if m and m.group(1) != "write":
                    calls.append(m.group(1))
            cov[tool + "_calls_in_region"] = len(calls)
            cov[tool + "_trace_lines_in_region"] = len(seg.split("\n"))
            for c in sorted(set(calls)):
                viols.append(dict(key="purity/%s/%s" % (tool, c), details=dict(trace=seg[:1500])))
        except Exception as ex:  # noqa
            cov[tool + "_note"] = "not run: %s" % str(ex)[:200]
    return cov, viols


prop("C19", "exploration",
     "all 2^31-2 generator states in 256 chunks (plain build; the ASan+UBSan build takes every 2048th state and both ends of every chunk): "
     "next_long_rand against 16807*s mod (2^31-1) in 64-bit arithmetic, draws for float/double/long double and their complex forms in [-0.5,0.5] "
     "and equal to state/(2^31-1)-0.5 within 4 ulp; the orbit from 1; every seed 2i+123j (i<2^20, j<5; subsampled under ASan) with its first 64 draws; "
     "16-thread and cross-process digests; ltrace/strace purity monitor. A case is one chunk; non-trivial = chunk with at least one state; distinct by chunk id",
     [dict(name="c19_rng", sources=["c19_rng.cpp"], flavour="plain"),
      dict(name="c19_rng_asan", sources=["c19_rng.cpp"], flavour="asan", flags=["-DC19_SUBSAMPLE"]),
      dict(name="c19_rng_gcc", sources=["c19_rng.cpp"], flavour="gcc-plain", flags=["-DC19_SUBSAMPLE"])],
     assumptions=TRUST + ["'across platforms' is observed as independence from process, thread, ASLR layout, heap history and libc RNG/clock state on this machine only"],
     exhaustive=True, extras=[dict(name="c19_purity_monitor", fn=c19_purity)])


# ------------------------------------------------------------------------------------------ C08
C08_MEMCHECK_JOBS = [dict(name="c08m_d", sources=["c08_qr.cpp"], flavour="memcheck", flags=["-DC08_T=double"])]
C09_MEMCHECK_JOBS = [dict(name="c09m_d", sources=["c09_eig.cpp"], flavour="memcheck", flags=["-DC09_T=double"])]
C10_MEMCHECK_JOBS = [dict(name="c10m_d", sources=["c10_bkldlt.cpp"], flavour="memcheck", flags=["-DC10_T=double"]),
                     dict(name="c10m_cd", sources=["c10_bkldlt.cpp"], flavour="memcheck", flags=["-DC10_T=std::complex<double>", "-DC10_COMPLEX"])]
prop("C08", "exploration",
     "UpperHessenbergQR / TridiagQR / DoubleShiftQR called directly on generated matrices: sizes 2..40 (60% of them <= 8), nine entry patterns "
     "(random, small integers with every zero/non-zero subdiagonal mask for n <= 8, graded over 16 decades, deflated blocks, negligible subdiagonals, "
     "scaled to 1e+-150 (type-appropriate), zero diagonal, diagonal/zero) x six shift kinds (random, zero, huge, exact eigenvalue(s) of H, a diagonal entry, tiny), "
     "float/double/long double; a driver case = 6 matrices; non-trivial = matrix not diagonal; distinct by (class, n, pattern, shift kind, mask, first entry, shift)",
     [dict(name="c08_qr_d", sources=["c08_qr.cpp"], flavour="asan", flags=["-DC08_T=double"]),
      dict(name="c08_qr_f", sources=["c08_qr.cpp"], flavour="asan", flags=["-DC08_T=float"]),
      dict(name="c08_qr_ld", sources=["c08_qr.cpp"], flavour="asan", flags=["-DC08_T=long double"])],
     assumptions=TRUST + ["identities are judged in long double with allowance 64*n*eps*(||H||_F+|s|sqrt(n)); for long double inputs the oracle's own rounding is inside that margin"],
     extra_jobs=C08_MEMCHECK_JOBS, extras=[dict(name="c08_memcheck_monitor", fn=memcheck_monitor(C08_MEMCHECK_JOBS, 800, 8000))])


# ------------------------------------------------------------------------------------------ C09
prop("C09", "exploration",
     "TridiagEigen / UpperHessenbergSchur / UpperHessenbergEigen called directly on generated matrices, sizes 2..64 (half of them <= 10), twelve entry classes each "
     "(random, integer, graded over 16 decades, exact zero subdiagonals, repeated eigenvalues, Jordan-like, companion, zero matrix, scaled by 1e+-150 (type-appropriate), "
     "orthogonal-Hessenberg, triangular / Wilkinson, Toeplitz, glued), float/double/long double; a driver case = 5 matrices; non-trivial = not the zero matrix; "
     "distinct by (class, n, pattern, corner entries)",
     [dict(name="c09_eig_d", sources=["c09_eig.cpp"], flavour="asan", flags=["-DC09_T=double"]),
      dict(name="c09_eig_f", sources=["c09_eig.cpp"], flavour="asan", flags=["-DC09_T=float"]),
      dict(name="c09_eig_ld", sources=["c09_eig.cpp"], flavour="asan", flags=["-DC09_T=long double"])],
     assumptions=TRUST + ["identities judged in long double with allowance 64*n*eps*||.||_F; the spectrum as a multiset is judged through the power sums "
                          "sum(lambda) = tr(H), sum(lambda^2) = tr(H^2) at backward-error level, so no conditioning assumption is needed"],
     extra_jobs=C09_MEMCHECK_JOBS, extras=[dict(name="c09_memcheck_monitor", fn=memcheck_monitor(C09_MEMCHECK_JOBS, 600, 6000))])


# ------------------------------------------------------------------------------------------ C10
prop("C10", "exploration",
     "BKLDLT called directly: sizes 1..80 (45% of them <= 12), eight matrix classes (SPD, indefinite, zero diagonal, block diagonal with [0 a;a 0] blocks, graded, integer, "
     "arrow, tridiagonal), four shift kinds (zero, random, equal to a diagonal entry, within 1e-8 of one), each matrix presented through Lower and Upper triangle "
     "(other triangle = NaN) x ColMajor/RowMajor x plain/Map/block/expression; structurally singular inputs (1x1 equal to the shift, zero matrix, zero row+column, "
     "sigma*I) incl. object reuse; the same through DenseSymShiftSolve / dense SymShiftInvert; float/double/long double/complex<double>. "
     "A driver case = 4 scenarios; non-trivial = every scenario executed; distinct by (kind, n, class, shift, entries)",
     [dict(name="c10_d", sources=["c10_bkldlt.cpp"], flavour="asan", flags=["-DC10_T=double"]),
      dict(name="c10_f", sources=["c10_bkldlt.cpp"], flavour="asan", flags=["-DC10_T=float"]),
      dict(name="c10_ld", sources=["c10_bkldlt.cpp"], flavour="asan", flags=["-DC10_T=long double"]),
      dict(name="c10_cd", sources=["c10_bkldlt.cpp"], flavour="asan", flags=["-DC10_T=std::complex<double>", "-DC10_COMPLEX"])],
     assumptions=TRUST + ["'nonsingular' is decided by a long-double full-pivoting LU of A - sigma I (smallest pivot > 1e3*n*eps*largest); inputs failing that are skipped, not judged",
                          "residual allowance 64*n*eps*(||A-sigma I||_F ||x|| + ||b||)"],
     extra_jobs=C10_MEMCHECK_JOBS, extras=[dict(name="c10_memcheck_monitor", fn=memcheck_monitor(C10_MEMCHECK_JOBS, 500, 5000))])


# ------------------------------------------------------------------------------------------ C01
SOLVER_DEPS = ["common/gen.hpp", "common/opwrap.hpp", "common/solvers.hpp", "common/oracle.hpp"]
prop("C01", "exploration",
     "random histories (length 1..4 quick / 1..8 thorough over init(), init(v), compute(args); every compute followed by the oracle) on SymEigsSolver (dense, sparse, user-defined operator), "
     "HermEigsSolver (dense, sparse) and SymEigsShiftSolver (dense BKLDLT, sparse LU) over 12 matrix classes (generic, clustered, repeated, graded, low-rank, block-diagonal, definite, banded, "
     "diagonal, multiple of identity, 2-D Laplacian, arrow), scales 1e-8..1e8, all legal (n, nev, ncv) shapes incl. ncv=nev+1 and ncv=n, five selection rules, tol from 4 eps, "
     "maxit from 0, start vectors default / gaussian / eigenvector / invariant subspace / smallest-modulus eigenvector, shifts at 1e-1..1e-6 of the spread from an eigenvalue; "
     "float/double/long double and their complex forms. Non-trivial = a history in which some compute() performed >= 1 restart and returned >= 1 pair; "
     "distinct by (solver, class, n, nev, ncv, history word, scale, first entry)",
     [dict(name="c01_%s%d" % (tn, g), sources=["c01_sym.cpp"], flavour="asan", flags=["-DC01_T=%s" % tt, "-DC01_GROUP=%d" % g], deps=SOLVER_DEPS)
      for tn, tt in (("d", "double"), ("f", "float"), ("ld", "long double")) for g in (0, 1, 2)],
     assumptions=TRUST + ["residuals are formed in long double from the exact entries the operator holds; norms/gaps come from a double-precision dense eigendecomposition"])


# ------------------------------------------------------------------------------------------ C02
prop("C02", "exploration",
     "random histories (as C01) on GenEigsSolver, GenEigsRealShiftSolver and GenEigsComplexShiftSolver (dense and sparse wrappers each). Seeded exploration over the domain on which the "
     "strict oracle is silent on the repaired tree (gaussian, normal and non-normal with prescribed spectrum, symmetric; norm within two decades of 1; default/gaussian start; shifts at >= 1e-2 "
     "of the spread, complex shifts generic / near / above an eigenvalue / at the tie |lambda-Re sigma| = |Im sigma|) plus a fixed, seed-independent corpus over the finding-prone domain "
     "(skew, orthogonal, permutation, triangular, companion, low-rank, block-diagonal, few distinct eigenvalues, nilpotent, identity-like, scales 1e-8..1e8, eigenvector / invariant-subspace starts, "
     "shifts down to 1e-6 of the spread). Oracle: unit norm, complex residual against tol*scale (back-transformed for both shift modes) + rounding, no duplicated pair at a simple eigenvalue. "
     "Non-trivial = some compute() performed >= 1 restart and returned >= 1 pair; distinct by (solver, class, n, nev, ncv, history word, scale, first entry)",
     [dict(name="c02_%s%d" % (tn, g), sources=["c02_gen.cpp"], flavour="asan", flags=["-DC02_T=%s" % tt, "-DC02_GROUP=%d" % g], deps=SOLVER_DEPS)
      for tn, tt in (("d", "double"), ("f", "float"), ("ld", "long double")) for g in (0, 1, 2)],
     assumptions=TRUST + ["residuals are formed in long double from the exact entries the operator holds; norms, singular values and the reference spectrum come from double-precision dense decompositions"])


# ------------------------------------------------------------------------------------------ C06
ZOO_DEPS = SOLVER_DEPS + ["common/zoo.hpp"]
C06_MEMCHECK_JOBS = [dict(name="c06m_g%d" % g, sources=["c06_history.cpp"], flavour="memcheck", flags=["-DZOO_GROUP=%d" % g], deps=ZOO_DEPS) for g in (0, 1, 2)]
prop("C06", "exploration",
     "for each of 17 solver configurations (standard, shift-and-invert, generalized in all five modes; dense and sparse wrappers) and a generated problem (60% clean / 40% hostile domain): "
     "the pair init(v)|init(); compute(args) is executed on (a) a fresh solver with a fresh operator, (b) a solver that first went through a random pre-history of length 0..4 (6 thorough) over "
     "init(), init(v'), converging / non-converging / throwing compute() and accessor reads, (c) a second solver constructed on the operator object used by (b); the three snapshots "
     "(return value, info, num_iterations, num_operations, raw bytes of eigenvalues() and eigenvectors()) must be identical, and the operator applied to a fixed vector must give the same bytes "
     "before and after compute(). Non-trivial = the observed run restarted at least once and the pre-history was not empty; distinct by (solver, n, nev, ncv, pre-history word, maxit, operation count)",
     [dict(name="c06_g%d" % g, sources=["c06_history.cpp"], flavour="asan", flags=["-DZOO_GROUP=%d" % g], deps=ZOO_DEPS, prelude=True) for g in (0, 1, 2)],
     assumptions=TRUST + ["bitwise comparison is sound because all compared runs execute in one process on identically aligned Eigen buffers (no run-time dispatch in Eigen)"],
     extra_jobs=C06_MEMCHECK_JOBS, extras=[dict(name="c06_memcheck_monitor", fn=memcheck_monitor(C06_MEMCHECK_JOBS, 1000, 10000)),
                                           dict(name="c06_alone_vs_sequence", fn=alone_vs_sequence_monitor(["c06_g0", "c06_g1", "c06_g2"], 700, 4000))])


# ------------------------------------------------------------------------------------------ C05
C05_MEMCHECK_JOBS = [dict(name="c05m_g%d" % g, sources=["c05_api.cpp"], flavour="memcheck", flags=["-DZOO_GROUP=%d" % g], deps=ZOO_DEPS + ["common/fachook.hpp"]) for g in (0, 1, 2)]
prop("C05", "exploration",
     "for each of 17 solver configurations and a generated problem (65% clean / 35% hostile domain): a random interleaving (length 2..5, 7 thorough) of init(), init(v), compute(selection, maxit, tol, sorting) "
     "with maxit from {0,0,1,1,2,3,5,10,300} and accessor reads; before any compute(): info()==NotComputed and empty accessors; after every compute(): return value == eigenvalues().size() == "
     "eigenvectors().cols() <= nev, info() Successful iff that number is nev, eigenvectors(m) for every m in 0..nev+2, order in the sorting key, value i fits column i (no other returned value fits "
     "it ten times better), num_operations() == applications seen by the counting wrapper since init() (applications at a foreign shift excluded), restarts (compress hook events) <= maxit. "
     "Non-trivial = some compute() restarted at least once and returned a pair; distinct by (solver, n, nev, ncv, history word, scale, total applications)",
     [dict(name="c05_g%d" % g, sources=["c05_api.cpp"], flavour="asan", flags=["-DZOO_GROUP=%d" % g], deps=ZOO_DEPS + ["common/fachook.hpp"]) for g in (0, 1, 2)],
     assumptions=TRUST + ["the number of restarts is observed as the number of compress_V hook events, the number of operator applications by a wrapper around the user's operator"],
     extra_jobs=C05_MEMCHECK_JOBS, extras=[dict(name="c05_memcheck_monitor", fn=memcheck_monitor(C05_MEMCHECK_JOBS, 1300, 20000))])


# ------------------------------------------------------------------------------------------ C13
C13_MEMCHECK_JOBS = [dict(name="c13m_g%d" % g, sources=["c13_safety.cpp"], flavour="memcheck", flags=["-DZOO_GROUP=%d" % g], deps=ZOO_DEPS + ["common/fachook.hpp"]) for g in (0, 1, 2)]
prop("C13", "exploration",
     "(A) hostile workload: 17 solver configurations + PartialSVDSolver on finite matrices of norm 1e-8..1e8 from every generator class plus the named degenerate inputs (zero, identity, scaled identity, "
     "rank one, exact ties in every selection key), half of the cases with n <= 10 (all legal (nev, ncv) shapes incl. ncv = nev+1/nev+2 and ncv = n), all rules, maxit from 0, four start-vector kinds; "
     "monitors: sanitizer + Eigen assertions (asan) and sanitizer as a release build (asan-ndebug), validating operator wrapper (distinct, non-overlapping, fully addressable length-n buffers; "
     "output pre-filled with NaN), operator-application count against 2+2*ncv*(maxit+1), outcome classifier (finite results with Successful/NotConverging, or a documented exception type). "
     "(B) small-scope enumeration through the guarded friend: for every ncv <= 10 (14 thorough) and nev, Ritz arrays holding reals and conjugate pairs tied in every key in arbitrary order, arbitrary "
     "zero patterns of the Ritz estimates and every nconv: nev_adjusted() in range, pair not split, then the real restart() under the sanitizer. "
     "Non-trivial = run that went past the first factorization / every enumerated state; distinct by their parameters",
     [dict(name="c13_g%d" % g, sources=["c13_safety.cpp"], flavour="asan", flags=["-DZOO_GROUP=%d" % g], deps=ZOO_DEPS + ["common/fachook.hpp"], cpu_limit=30, hang_is_violation=True) for g in (0, 1, 2)] +
     [dict(name="c13n_g%d" % g, sources=["c13_safety.cpp"], flavour="asan-ndebug", flags=["-DZOO_GROUP=%d" % g], deps=ZOO_DEPS + ["common/fachook.hpp"], cpu_limit=30, hang_is_violation=True) for g in (0, 1, 2)],
     assumptions=TRUST + ["termination is decided by the operator-application bound enforced inside the wrapper and, for a loop that applies no operator at all, by a budget of 30 CPU-seconds "
                          "per case (cases take milliseconds; CPU time of the process, so machine load does not matter), confirmed by re-running the case alone; never by wall-clock time"],
     extra_jobs=C13_MEMCHECK_JOBS, extras=[dict(name="c13_memcheck_monitor", fn=memcheck_monitor(C13_MEMCHECK_JOBS, 6000, 60000))])


# ------------------------------------------------------------------------------------------ C14
prop("C14", "fault_enumeration",
     "for each of 17 solver configurations and 6 inputs (24 thorough; clean random, few distinct eigenvalues, identity + rank one, block diagonal with repeated blocks - the last three exhaust the "
     "Krylov space so that the restart path runs): the fault-free init(); compute() gives N operator applications and a baseline snapshot; then for EVERY k in 1..N (A-operator, and separately every "
     "application of the B-operator of generalized problems) the wrapper throws a private exception with a token at application k: the same exception object type and token must arrive at the caller "
     "(from init() iff k <= 2), and a following init(); compute() on the same solver must reproduce the baseline bit for bit; plus 120 (600) pairs of faults; allocated bytes before/after all cycles "
     "and LeakSanitizer at exit. An evaluation = one faulted run; non-trivial = a (solver, input) whose enumeration ran; distinct by (solver, input, n, nev, ncv, N, maxit)",
     [dict(name="c14_g%d" % g, sources=["c14_fault.cpp"], flavour="asan", flags=["-DZOO_GROUP=%d" % g], deps=ZOO_DEPS + ["common/fachook.hpp"], case_timeout=900, cpu_limit=1500) for g in (0, 1, 2)],
     assumptions=TRUST + ["the fault is injected by a wrapper around the user's operator; PartialSVDSolver is not covered because its operator is internal"],
     exhaustive=True)


# ------------------------------------------------------------------------------------------ C20
prop("C20", "exploration",
     "ThreadSanitizer build (g++). A case is one launch: a task list of ~2 tasks per solver configuration (17 configurations; one clean input and one with few distinct eigenvalues so that the "
     "restart path runs at different Krylov steps), plus tasks whose solvers share ONE const Dense/Sparse{Sym,Gen}MatProd object; the main thread computes every snapshot sequentially, then 2..16 "
     "threads start together and each executes its own random permutation of the list with sched_yield/usleep(0..200us) injected between operator applications. Oracle: zero ThreadSanitizer reports "
     "(de-duplicated by stack pair) and every concurrent snapshot byte-identical to the sequential one. Non-trivial = a launch in which task executions of different threads overlapped in time "
     "(measured from per-thread start/end stamps); distinct by (threads, first thread's order, launch number)",
     [dict(name="c20_g%d" % g, sources=["c20_threads.cpp"], flavour="tsan", flags=["-DZOO_GROUP=%d" % g], deps=ZOO_DEPS + ["common/fachook.hpp"], max_workers=3, prelude=True) for g in (0, 1, 2)],
     assumptions=TRUST + ["ThreadSanitizer sees the happens-before relation of the executions it observes; the evidence records how many cross-thread task pairs actually overlapped"],
     extras=[dict(name="c20_alone_vs_sequence", fn=alone_vs_sequence_monitor(["c20_g0", "c20_g1", "c20_g2"], 36, 120))])


# ------------------------------------------------------------------------------------------ C07
prop("C07", "exploration",
     "online invariant checker at the guarded hook (end of Arnoldi::init, of both factorize_from, of compress_V, on return from expand_basis): at every event, for the advertised k, "
     "||OP V_k - V_k H_k - f e_k'||_F, max|V'BV - I|, max|V'Bf|, | ||f||_B - beta | against C*k*u*||OP|| (times the condition of the factorized / inner-product matrix, times sqrt(1+events)), H_k exactly real "
     "symmetric tridiagonal (Lanczos) or Hessenberg to rounding (Arnoldi), restarted columns with an exactly zero subdiagonal. OP and B are dense extended-precision models built independently per "
     "solver mode. Workload 1: solver runs of 11 configurations (standard, shift-and-invert real/complex, Cholesky, regular inverse, generalized shift-invert, buckling, Cayley); workload 2: Arnoldi<double>, "
     "Lanczos<double>, Lanczos<complex>, Lanczos with B inner product driven directly through 1..25 (60 thorough) restarts with exact and arbitrary shifts, single and double; plus a fixed corpus over the "
     "finding-prone domain (breakdown-prone classes, invariant-subspace start vectors, scales 1e-8..1e8). Non-trivial = at least one compress and one extend event; distinct by the run's parameters",
     [dict(name="c07_g%d" % g, sources=["c07_krylov.cpp"], flavour="asan", flags=["-DZOO_GROUP=%d" % g], deps=ZOO_DEPS + ["common/fachook.hpp", "common/facmon.hpp"]) for g in (0, 1, 2)],
     assumptions=TRUST + ["the checker reads the factorization through guarded friend access at the hook; it never writes"])


# ------------------------------------------------------------------------------------------ C03
prop("C03", "exploration",
     "random init()/init(v)/compute() histories on 14 generalized-solver instantiations: SymGEigsSolver in Cholesky mode (dense/sparse A x dense/sparse B, Lower and Upper, row- and column-major) and "
     "RegularInverse mode, SymGEigsShiftSolver in ShiftInvert, Buckling and Cayley mode over SymShiftInvert with sparse/sparse, dense/dense, sparse/dense and dense/sparse pairings incl. mixed triangles "
     "and row-major storage; only the documented triangle of each matrix is stored. Pencils: A from the clean symmetric classes, B (K in buckling mode) SPD with condition 1..1e4 (1e2 for the CG mode), "
     "shifts at 3-10% of the spread from a generalized eigenvalue; corpus: condition up to 1e8, all classes, scales 1e-6..1e6, shifts down to 1e-5. Oracle in long double: "
     "||A x - lambda B x|| against 4*tol*(stretch of the mode)*max(eps^(2/3),|nu|)/sqrt(lambda_min(M)) + 200 n u cond(F) (||A|| + (|lambda|+|sigma|)||B||)||x||, max|X'MX - I| against 200 ncv u cond(M), "
     "every returned value matched to a distinct reference eigenvalue of the pencil. Non-trivial = a compute() restarted and returned a pair; distinct by (variant, n, nev, ncv, word, cond, first entry)",
     [dict(name="c03_%s%d" % (tn, g), sources=["c03_geigs.cpp"], flavour="asan", flags=["-DC03_T=%s" % tt, "-DC03_GROUP=%d" % g], deps=SOLVER_DEPS)
      for tn, tt in (("d", "double"), ("f", "float"), ("ld", "long double")) for g in (0, 1)],
     assumptions=TRUST + ["the reference spectrum of the pencil comes from Eigen's GeneralizedSelfAdjointEigenSolver in double"])


# ------------------------------------------------------------------------------------------ C04
prop("C04", "exploration",
     "17 solver configurations of the Arnoldi/Lanczos family, each on matrices / pencils whose spectrum is prescribed by construction (real spectra for the symmetric family, real values and conjugate "
     "pairs for the general family; pencils B = LL', A = L Q D Q' L'), every selection rule the solver supports, nev 1..5, ncv = 2nev+1 + room with room classes tight (<10) / medium (10..19) / "
     "roomy (>=20) / full (ncv = n), default start vector; the wanted k values are required to be separated from the rest by >= 0.5% of the spread in the rule's key applied to the iterated spectrum "
     "(nu = 1/(lambda-sigma), lambda/(lambda-sigma), (lambda+sigma)/(lambda-sigma), the complex-shift map). When and only when info() == Successful, the sorted keys of the returned values must "
     "equal those of the rule's top-k (ceil/floor split for BothEnds) within a quarter of the gap. Runs that do not converge are counted as inconclusive. Seeded exploration over the classes that are "
     "sharp on the repaired tree + fixed corpus over the classes where implicit restart with early stopping misses sporadically. Non-trivial = a Successful run that restarted; distinct by parameters",
     [dict(name="c04_g%d" % g, sources=["c04_select.cpp"], flavour="plain", flags=["-DZOO_GROUP=%d" % g], deps=ZOO_DEPS + ["common/fachook.hpp"]) for g in (0, 1, 2)],
     assumptions=TRUST + ["the reference spectrum is the one the matrix was built from (rounding of the construction is far below the 0.5% gap)"])


# ------------------------------------------------------------------------------------------ C11
WRAP_DEPS = ["common/oracle.hpp", "common/wrapgen.hpp"]
prop("C11", "exploration",
     "registry of wrapper instantiations: the six product wrappers, the six shift-solve wrappers, Dense/SparseCholesky, SparseRegularInverse, each in every triangle x storage-order combination "
     "(storage index int, and long on a subset), SymShiftInvert in all 64 combinations of {dense,sparse}^2 x {Lower,Upper}^2 x {ColMajor,RowMajor}^2 (+ long index), and the five composite operators of the "
     "generalized solvers; float/double/long double (complex for the Hermitian products). For each instance and sizes 1, 2 and random n <= 30 (60 thorough): the wrapper receives the full matrix with the "
     "triangle it is NOT told to read filled (a) with NaN and (b) with unrelated numbers - both outputs must be byte-identical and finite; perform_op / solve / triangular solves / operator* / "
     "operator() are compared with a long-double dense reference (products: 100 n u ||A|| ||x||; solves: residual 100 n u (||F|| ||y|| + ||x||); Re[(A-sigma I)^-1 x] forward with the condition number; "
     "composites against the explicitly formed operator); inputs also as Map, strided block and expression (temporary owned by the wrapper, under ASan). "
     "An evaluation = one (instance, size); non-trivial = n >= 2; distinct by (instance, n, case)",
     [dict(name="c11_w_%s" % tn, sources=["c11_wrappers.cpp"], flavour="asan", flags=["-DC11_T=%s" % tt], deps=WRAP_DEPS) for tn, tt in (("d", "double"), ("f", "float"), ("ld", "long double"))] +
     [dict(name="c11_ssi_%s" % tn, sources=["c11_ssi.cpp"], flavour="asan", flags=["-DC11_T=%s" % tt], deps=WRAP_DEPS) for tn, tt in (("d", "double"), ("f", "float"))],
     assumptions=TRUST + ["'all sizes' is sampled; instantiations that do not compile would be a build failure of the check, not a runtime verdict"])


# ------------------------------------------------------------------------------------------ C12
prop("C12", "exploration",
     "exhaustive over the stated box: for each of 17 solver configurations and every n in 1..12, every (nev, ncv) in [-2, n+3]^2 is passed to the constructor and judged against the documented predicate "
     "(rejected => std::invalid_argument exactly and unchanged allocated bytes; accepted => no exception and init(); compute(maxit=3) runs); every one of the nine SortRule values as selection and as sorting "
     "argument (unsupported => invalid_argument, then the same solver must reproduce a fresh solver bit for bit); zero start vectors (+0, -0, mixed); sigma = 0 in ShiftInvert / Buckling / Cayley mode; "
     "DavidsonSymEigsSolver nev in [-2, n+3]; PartialSVDSolver (ncomp, ncv) box for tall, wide and square input with the leak monitor; LOBPCGSolver size checks for all shapes up to 4x4; every wrapper "
     "constructor that requires a square matrix with every shape up to 4x4. LeakSanitizer at exit. An evaluation = one call judged; non-trivial = every sweep; distinct by (class, n)",
     [dict(name="c12_g%d" % g, sources=["c12_args.cpp"], flavour="asan", flags=["-DZOO_GROUP=%d" % g], deps=ZOO_DEPS + ["common/fachook.hpp"]) for g in (0, 1, 2, 3)],
     assumptions=TRUST + ["the documented predicate is 1 <= nev <= n-1, nev < ncv <= n (symmetric family, SVD on min(m,n)), 1 <= nev <= n-2, nev+2 <= ncv <= n (general family), 1 <= nev <= n-1 (Davidson)"],
     exhaustive=True)


# ------------------------------------------------------------------------------------------ C15
prop("C15", "exploration",
     "DavidsonSymEigsSolver over DenseSymMatProd and SparseSymMatProd: seven matrix classes (diagonally dominant, strongly dominant, not dominant, block diagonal, isolated (exactly decoupled) diagonal entries, "
     "diagonal, dominant with repeated diagonal), n 6..60 (120 thorough), every nev, initial / maximal search-space sizes with initial + correction <= n, LargestAlge/SmallestAlge/LargestMagn/SmallestMagn, "
     "tol 1e-3..1e-10, maxit 1..100, compute() and compute_with_guess() with an orthonormal block, a non-orthonormal block, and a block that contains unit vectors of decoupled coordinates (exact Ritz vectors). "
     "Always: every returned number finite. When Successful: compute() returned nev, ||A x - theta x|| < tol + 200 n u ||A|| with A applied by the harness in long double, unit norm, orthonormal, ordered by the rule. "
     "Non-trivial = a Successful run that iterated; distinct by parameters",
     [dict(name="c15_davidson", sources=["c15_davidson.cpp"], flavour="asan", deps=SOLVER_DEPS,
           # Eigen forms &dst(0,0) of an empty destination when the search space has no new column (0-column product): benign inside Eigen, not the library's code
           flags=["-fno-sanitize=null,pointer-overflow"])],
     assumptions=TRUST)


# ------------------------------------------------------------------------------------------ C16
prop("C16", "exploration",
     "PartialSVDSolver on tall, wide and square matrices (3..40, 80 thorough), dense column-/row-major and sparse column-/row-major, five input kinds (prescribed singular values, gaussian, exactly rank-deficient, "
     "tail at 1e-9, scaled by 1e-6..1e6), ncomp 1..min(m,n)-1, ncv incl. the full dimension, two successive compute(maxit, tol) calls with different arguments followed by a fresh solver run with the second "
     "arguments. Always: singular values finite, non-negative, non-increasing, as many as compute() returned; matrix_U(k)/matrix_V(k) with min(k, nconv) columns for every k in 0..ncomp+2. For singular values "
     "above 1e-4 ||A||: agreement with Eigen's JacobiSVD within (4 tol + 200 n u)||A||^2/s, U'U = I and V'V = I within (4 tol + 200 n u)(||A||/s_min)^2, ||AV - US||, ||A'U - VS|| within (4 tol + 200 n u)||A||^2/s_min; "
     "after the second compute() all accessors byte-identical to the fresh solver. Non-trivial = a run that returned at least one triplet; distinct by parameters",
     [dict(name="c16_svd", sources=["c16_svd.cpp"], flavour="asan", deps=["common/gen.hpp", "common/oracle.hpp"])],
     assumptions=TRUST)


# ------------------------------------------------------------------------------------------ C17
prop("C17", "exploration",
     "LOBPCGSolver<double> on pencils (A, B) with prescribed, well separated smallest eigenvalues (n 30..90, 200 thorough), B = I or SPD with condition <= 100, with / without a diagonal preconditioner, "
     "gaussian initial blocks of size k with 5k < n (k = 1 and k >= 10 included: the inner solver rejects them, which counts as 'no success reported'), tol*n from 1e-5*n, maxit 5..150. "
     "When info() == Success: eigenvalues() ascending and equal to the k smallest reference eigenvalues (Eigen's generalized solver) within 4 tol n / sqrt(lambda_min(B)); eigenvectors() n x k with X'BX = I; "
     "A X - B X diag(lambda) column norms below tol*n; residuals() column norms below tol*n and equal to A X - B X diag(lambda) for the private iterate X read through the guarded friend. "
     "Otherwise: info() != Success or the exception propagated. Non-trivial = a run that reported success (or a rejected block size); distinct by parameters",
     [dict(name="c17_lobpcg", sources=["c17_lobpcg.cpp"], flavour="asan", deps=["common/gen.hpp", "common/oracle.hpp", "common/fachook.hpp"], flags=["-fno-sanitize=null,pointer-overflow"])],
     assumptions=TRUST + ["UBSan's null / pointer-overflow checks are off in this driver (Eigen-internal handling of empty sparse products)"])
