"""Registry: build flavours and, per property, the jobs (drivers) that decide it."""

COMMON_WARN = ["-Wno-unused-value", "-Wno-deprecated-declarations"]
FLAVOURS = {
    # default for behavioural drivers: memory errors, UB, leaks, Eigen index assertions ON
    "asan": dict(cxx=["clang++"], flags=["-std=c++17", "-O1", "-gline-tables-only", "-fno-omit-frame-pointer",
                                         "-fsanitize=address,undefined", "-fno-sanitize=object-size",
                                         "-fno-sanitize-recover=all", "-DSPECTRA_VERIF"] + COMMON_WARN),
    # as a user's release build: an out-of-range index is a sanitizer report, not an eigen_assert
    "asan-ndebug": dict(cxx=["clang++"], flags=["-std=c++17", "-O1", "-gline-tables-only", "-fno-omit-frame-pointer",
                                                "-fsanitize=address,undefined", "-fno-sanitize=object-size",
                                                "-fno-sanitize-recover=all", "-DSPECTRA_VERIF", "-DNDEBUG"] + COMMON_WARN),
    "tsan": dict(cxx=["g++"], flags=["-std=c++17", "-O1", "-g1", "-fsanitize=thread", "-DSPECTRA_VERIF", "-pthread"] + COMMON_WARN,
                 ldflags=["-pthread"]),
    "plain": dict(cxx=["clang++"], flags=["-std=c++17", "-O2", "-DSPECTRA_VERIF", "-pthread"] + COMMON_WARN, ldflags=["-pthread"]),
    "plain-nohook": dict(cxx=["clang++"], flags=["-std=c++17", "-O2", "-pthread"] + COMMON_WARN, ldflags=["-pthread"]),
}

PROPS = {}


def prop(pid, level, rule, jobs, assumptions=None, exhaustive=False, exhaustive_tiers=None, extras=None):
    PROPS[pid] = dict(level=level, rule=rule, jobs=jobs, assumptions=assumptions or [], exhaustive=exhaustive,
                      exhaustive_tiers=exhaustive_tiers or ["quick", "thorough"], extras=extras or [])


TRUST = ["Eigen 3.4 dense decompositions in long double are the reference for spectra and residuals",
         "compiler sanitizer runtimes (clang 14 ASan/UBSan/LSan, gcc 12 TSan); positive-control canary run before every check",
         "the harness generators and oracles (harness/common)"]

prop("C18", "exploration",
     "every vector of length 0..7 over the real alphabet {-2,-1,-0.0,+0.0,1,2,1e-300} and the complex alphabet "
     "{0,+-1,+-i,1+-i,-1+-i,2} (quick: lengths 0..6 real / 0..5 complex exhaustively, longer lengths sampled; thorough: 0..7 / 0..6) "
     "under every one of the nine rules through argsort and SortEigenvalue, plus random long vectors with heavy ties; "
     "a case is a batch of vectors; non-trivial = a (type, rule, length, has-tie) combination whose permutation is not the identity; "
     "distinct by hash of (type, rule, vector)",
     [dict(name="c18_sort", sources=["c18_sort.cpp"], flavour="asan")],
     assumptions=TRUST, exhaustive=True)
