#!/bin/bash
# Runs checks against a seeded change WITHOUT touching /repo: copies /repo's headers to a scratch directory, applies the patch there,
# points the checks at it (SPECTRA_VERIF_REPO) and redirects evidence/replays to the scratch directory.  Removes the scratch copy afterwards.
# Usage: try_seed.sh <seeded-dir-name> <property> [property...]      (TIER=thorough for the thorough tier)
SD=/verif/seeded/$1; N=$1; shift
S=/tmp/seedrepo_$N.$$
mkdir -p $S && cp -r /repo/include $S/ || exit 2
trap 'rm -rf $S' EXIT
( cd $S && patch -p1 -s < $SD/patch.diff ) || { echo "patch does not apply"; exit 2; }
cd /verif
for p in "$@"; do
  SPECTRA_VERIF_REPO=$S SPECTRA_VERIF_OUT=$S/out python3 tools/check.py $p --tier ${TIER:-quick} > $S/out_$p.txt 2>&1; rc=$?
  echo "== seed $N check $p rc=$rc"; grep -E "^(VIOLATION|KNOWN-FINDING|SUMMARY|HARNESS)|^  key=" $S/out_$p.txt | cut -c1-300 | head -${LINES_MAX:-10}
done
