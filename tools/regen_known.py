#!/usr/bin/env python3
"""Maintenance tool (never run by a check): regenerates the corpus entries of known_findings.json for one property.

    python3 tools/regen_known.py C01 [C02 ...]

Runs the quick and the thorough tier with VERIF_DUMP, collects every violation key that starts with "corpus/" and rewrites the
entries of that property whose key starts with "corpus/".  Entries for non-corpus keys (site / history findings) are kept as they are.
Run it only on a tree whose seeded exploration is silent, after every "fix:" commit, and review the diff before committing.
"""
import json, os, subprocess, sys, tempfile
VERIF = os.path.dirname(os.path.dirname(os.path.abspath(__file__)))
kf = os.path.join(VERIF, "known_findings.json")
db = json.load(open(kf))
for pid in sys.argv[1:]:
    seen = {}
    for tier in ("quick",):   # the corpus is identical in both tiers
        with tempfile.NamedTemporaryFile(suffix=".jsonl", delete=False) as tf:
            dump = tf.name
        env = dict(os.environ, VERIF_DUMP=dump, SPECTRA_VERIF_OUT=tempfile.mkdtemp())
        subprocess.run([sys.executable, os.path.join(VERIF, "tools", "check.py"), pid, "--tier", tier], env=env, stdout=subprocess.DEVNULL)
        for line in open(dump):
            v = json.loads(line)
            if v["key"].startswith("corpus/"):
                d = v["details"]
                what = ""
                if isinstance(d, dict):
                    keep = {k: d[k] for k in ("solver", "scalar", "class", "n", "nev", "ncv", "scale", "sigma", "history", "selection", "maxit", "tol", "start", "info", "observed", "allowed", "what", "mode", "rule", "kind") if k in d}
                    what = json.dumps(keep, sort_keys=True)
                seen.setdefault(v["key"], what)
        os.unlink(dump)
    db["findings"] = [f for f in db["findings"] if not (f["property"] == pid and f["key"].startswith("corpus/"))]
    for k in sorted(seen):
        db["findings"].append(dict(property=pid, key=k, what=seen[k][:400]))
    print("%s: %d corpus findings" % (pid, len(seen)))
json.dump(db, open(kf, "w"), indent=1)
