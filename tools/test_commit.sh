#!/bin/bash
# Builds and runs the repository's own suite for one commit of /repo in a scratch worktree (removed afterwards).
# Usage: test_commit.sh <commit> [jobs]
C=$1; J=${2:-6}; W=/tmp/wt/commit_$C
git -C /repo worktree add -q --detach $W $C || exit 2
( cmake -G Ninja -S $W -B $W/_build -DBUILD_TESTS=ON -DCMAKE_BUILD_TYPE=RelWithDebInfo -DCMAKE_CXX_FLAGS=-Wno-error > /dev/null && cmake --build $W/_build -j$J 2>&1 | tail -1 && ctest --test-dir $W/_build -j$J --timeout 900 2>&1 | tail -3 ) 
git -C /repo worktree remove --force $W
