#!/usr/bin/env python3
"""Runner for the runtime-monitoring checks of yixuan/spectra.

    python3 tools/check.py <PROPERTY> [--tier quick|thorough] [--replay FILE]
    python3 tools/check.py --prebuild          (setup: compile every quick driver)

Exit codes: 0 held on everything observed (known findings are printed as KNOWN-FINDING lines),
            1 at least one violation that known_findings.json does not list (VIOLATION lines),
            2 harness failure (build error, nothing observed, canary not detected, ...).
"""
import argparse, fnmatch, glob, hashlib, json, os, re, shutil, signal, subprocess, sys, threading, time
from concurrent.futures import ThreadPoolExecutor

VERIF = os.path.dirname(os.path.dirname(os.path.abspath(__file__)))
REPO = os.environ.get("SPECTRA_VERIF_REPO", "/repo")
EIGEN = "/usr/include/eigen3"
BUILD_ROOT = os.path.join(VERIF, ".build")
OUT_ROOT = os.environ.get("SPECTRA_VERIF_OUT", VERIF)   # evidence/ and replays/ (selftest / seeded runs redirect them)
JOBS = int(os.environ.get("VERIF_JOBS", "16"))
CASE_TIMEOUT = int(os.environ.get("VERIF_CASE_TIMEOUT", "180"))   # wall-clock watchdog, inconclusive only
CASE_CPU = int(os.environ.get("VERIF_CASE_CPU", "600"))           # CPU-seconds watchdog inside the driver (exit code 86)
RC_CPU = 86

sys.path.insert(0, os.path.join(VERIF, "tools"))
from registry import PROPS, FLAVOURS  # noqa: E402


def log(msg):
    print(msg, flush=True)


# ------------------------------------------------------------------------------------ build
def tree_hash():
    h = hashlib.sha256()
    files = sorted(glob.glob(os.path.join(REPO, "include", "Spectra", "**", "*.h"), recursive=True))
    if not files:
        raise RuntimeError("no library headers under %s/include/Spectra" % REPO)
    for f in files:
        h.update(os.path.relpath(f, REPO).encode())
        with open(f, "rb") as fh:
            h.update(fh.read())
    for f in sorted(glob.glob(os.path.join(VERIF, "harness", "common", "*.hpp"))):
        h.update(os.path.relpath(f, VERIF).encode())
        with open(f, "rb") as fh:
            h.update(fh.read())
    return h


_TREE = None


def job_hash(job):
    global _TREE
    if _TREE is None:
        _TREE = tree_hash().hexdigest()
    h = hashlib.sha256(_TREE.encode())
    fl = FLAVOURS[job["flavour"]]
    h.update(" ".join(fl["cxx"] + fl["flags"] + job.get("flags", []) + fl.get("ldflags", [])).encode())
    for s in job["sources"]:
        with open(os.path.join(VERIF, "harness", s), "rb") as fh:
            h.update(s.encode())
            h.update(fh.read())
    for s in job.get("deps", []):
        with open(os.path.join(VERIF, "harness", s), "rb") as fh:
            h.update(s.encode())
            h.update(fh.read())
    return h.hexdigest()[:16]


_build_lock = threading.Lock()


def build(job, pool=None):
    """Compile the job's translation units (in parallel) and link. Returns the executable path."""
    fl = FLAVOURS[job["flavour"]]
    name = job["name"]
    hh = job_hash(job)
    d = os.path.join(BUILD_ROOT, "%s-%s-%s" % (name, job["flavour"], hh))
    exe = os.path.join(d, name)
    if os.path.exists(exe + ".ok"):
        return exe
    # prune stale builds of the same job
    olds = [o for o in glob.glob(os.path.join(BUILD_ROOT, "%s-%s-*" % (name, job["flavour"]))) if o != d]
    olds.sort(key=lambda o: os.path.getmtime(o), reverse=True)
    for old in olds[2:]:   # keep the two most recent other builds (seeded-change runs alternate between two trees)
        shutil.rmtree(old, ignore_errors=True)
    os.makedirs(d, exist_ok=True)
    inc = ["-I" + os.path.join(REPO, "include"), "-isystem", EIGEN, "-I" + os.path.join(VERIF, "harness")]
    objs, cmds = [], []
    for s in job["sources"]:
        o = os.path.join(d, s.replace("/", "_") + ".o")
        objs.append(o)
        cmds.append(fl["cxx"] + fl["flags"] + job.get("flags", []) + inc + ["-c", os.path.join(VERIF, "harness", s), "-o", o])

    def cc(cmd):
        r = subprocess.run(cmd, stdout=subprocess.PIPE, stderr=subprocess.STDOUT, text=True)
        return r.returncode, r.stdout, cmd

    t0 = time.time()
    if pool is None:
        with ThreadPoolExecutor(max_workers=min(JOBS, len(cmds))) as p:
            res = list(p.map(cc, cmds))
    else:
        res = list(pool.map(cc, cmds))
    for rc, out, cmd in res:
        if rc != 0:
            raise RuntimeError("compile failed: %s\n%s" % (" ".join(cmd), out[-6000:]))
    link = fl["cxx"] + fl["flags"] + objs + ["-o", exe] + fl.get("ldflags", []) + job.get("ldflags", [])
    r = subprocess.run(link, stdout=subprocess.PIPE, stderr=subprocess.STDOUT, text=True)
    if r.returncode != 0:
        raise RuntimeError("link failed: %s\n%s" % (" ".join(link), r.stdout[-6000:]))
    for o in objs:
        try:
            os.remove(o)
        except OSError:
            pass
    open(exe + ".ok", "w").write("%.1f\n" % (time.time() - t0))
    return exe


# ------------------------------------------------------------------------------------ run
def env_for(flavour, logdir, tag, cpu=None):
    e = dict(os.environ)
    e.pop("VF_PRELUDE", None)
    if cpu:
        e["VF_CASE_CPU"] = str(cpu)
    else:
        e.pop("VF_CASE_CPU", None)
    e["ASAN_OPTIONS"] = "abort_on_error=1:detect_leaks=1:allocator_may_return_null=0:detect_stack_use_after_return=0:symbolize=1:quarantine_size_mb=16:malloc_context_size=8"
    e["UBSAN_OPTIONS"] = "print_stacktrace=1:halt_on_error=1:abort_on_error=1"
    e["LSAN_OPTIONS"] = "exitcode=23"
    e["TSAN_OPTIONS"] = "halt_on_error=0:exitcode=0:log_path=%s" % os.path.join(logdir, "tsan.%s" % tag)
    e["ASAN_SYMBOLIZER_PATH"] = "/usr/bin/llvm-symbolizer"
    return e


def classify_crash(stderr, rc):
    """Key for a worker death: sanitizer kind + top library frame, or assertion text."""
    top = ""
    m = re.search(r"#\d+ 0x[0-9a-f]+ in (Spectra::[A-Za-z0-9_:~]+)", stderr)
    if m:
        top = m.group(1)
    else:
        m = re.search(r"#\d+ 0x[0-9a-f]+ in ([A-Za-z0-9_:~]+).*include/Spectra/([A-Za-z0-9_/]+\.h)", stderr)
        if m:
            top = m.group(2)
    m = re.search(r"ERROR: AddressSanitizer: ([A-Za-z0-9_-]+)", stderr)
    if m:
        return "crash/asan/%s/%s" % (m.group(1), top or "?")
    m = re.search(r"([A-Za-z0-9_./+-]+):(\d+):\d+: runtime error: ([^\n]*)", stderr)
    if m:
        msg = re.sub(r"0x[0-9a-f]+", "ADDR", m.group(3))
        msg = re.sub(r"-?\d+(\.\d+)?(e[+-]?\d+)?", "N", msg)[:60].strip().replace(" ", "_")
        return "crash/ubsan/%s/%s" % (os.path.basename(m.group(1)), msg)
    m = re.search(r"Assertion `(.*?)' failed", stderr, re.S)
    if m:
        fn = re.search(r": ([^\n]*?): Assertion `", stderr)
        where = ""
        if fn:
            mm = re.search(r"([A-Za-z_][A-Za-z0-9_]*)::([A-Za-z_~][A-Za-z0-9_]*)\(", fn.group(1))
            where = "%s::%s" % (mm.group(1), mm.group(2)) if mm else ""
        cond = re.sub(r"\s+", " ", m.group(1))[:50].replace(" ", "_")
        return "crash/assert/%s/%s" % (where or "?", cond)
    m = re.search(r"terminate called after throwing an instance of '([^']+)'", stderr)
    if m:
        return "crash/uncaught/%s" % m.group(1)
    m = re.search(r"ERROR: LeakSanitizer", stderr)
    if m:
        return "crash/lsan/leak/%s" % (top or "?")
    if rc < 0:
        try:
            return "crash/signal/%s" % signal.Signals(-rc).name
        except ValueError:
            return "crash/signal/%d" % (-rc)
    return "crash/exit/%d" % rc


class JobResult:
    def __init__(self):
        self.cases = 0
        self.counters = {}
        self.maxr = {}
        self.maxr_case = {}
        self.nt = set()
        self.samples = []
        self.violations = []     # dict(key, idx, details, job)
        self.inconclusive = []   # dict(idx, reason)
        self.tsan_reports = []
        self.wall = 0.0

    def merge_case(self, rec, idx=-1):
        self.cases += 1
        for k, v in rec.get("c", {}).items():
            self.counters[k] = self.counters.get(k, 0) + v
        for k, v in rec.get("m", {}).items():
            if isinstance(v, str):
                v = float(v.replace("\"", ""))
            if k not in self.maxr or v > self.maxr[k]:
                self.maxr[k] = v
                self.maxr_case[k] = idx
        for h in rec.get("nt", []):
            self.nt.add(h)
        if "s" in rec and len(self.samples) < 12:
            self.samples.append(rec["s"])


def parse_log(path, res, job, seen_done):
    """Parse one worker log. Returns (open_idx or None, done flag)."""
    open_idx, done, tag = None, False, None
    res.open_where = None
    if not os.path.exists(path):
        return None, False, None
    with open(path, "r", errors="replace") as fh:
        for line in fh:
            if not line.endswith("\n"):
                break   # torn last line of a dead worker
            t = line[0]
            if t == "B":
                open_idx = int(line[2:])
                tag = None
                res.open_where = None
            elif t == "W":
                sp = line.find(" ", 2)
                res.open_where = line[sp + 1:].strip()
            elif t == "T":
                sp = line.find(" ", 2)
                tag = line[sp + 1:].strip()
            elif t == "E":
                sp = line.find(" ", 2)
                idx = int(line[2:sp])
                try:
                    res.merge_case(json.loads(line[sp + 1:]), idx)
                except ValueError:
                    res.violations.append(dict(key="harness/bad-record", idx=idx, details={"line": line[:200]}, job=job["name"]))
                open_idx = None
            elif t == "V":
                sp = line.find(" ", 2)
                idx = int(line[2:sp])
                key, _, js = line[sp + 1:].rstrip("\n").partition("\t")
                try:
                    det = json.loads(js) if js else {}
                except ValueError:
                    det = {"raw": js[:500]}
                res.violations.append(dict(key=key, idx=idx, details=det, job=job["name"]))
            elif t == "I":
                sp = line.find(" ", 2)
                res.inconclusive.append(dict(idx=int(line[2:sp]), reason=line[sp + 1:].strip(), job=job["name"]))
            elif t == "D":
                done = True
    return open_idx, done, tag


def run_job(job, exe, tier, seed, workdir):
    """Run all cases of a job over JOBS worker processes; contain crashes; collect records."""
    res = JobResult()
    t0 = time.time()
    nworkers = min(JOBS, job.get("max_workers", JOBS))
    flavour = job["flavour"]
    total = int(subprocess.run([exe, "--tier", tier, "--seed", str(seed), "--ncases"], stdout=subprocess.PIPE, text=True,
                               env=env_for(flavour, workdir, "n")).stdout.strip() or "0")
    res.total = total
    lock = threading.Lock()
    cpu_limit = job.get("cpu_limit", CASE_CPU)
    hung = []   # (idx, tag, where) of cases stopped by the CPU watchdog

    def worker(w):
        start = 0
        attempt = 0
        while True:
            attempt += 1
            lp = os.path.join(workdir, "%s.w%d.a%d.log" % (job["name"], w, attempt))
            ep = os.path.join(workdir, "%s.w%d.a%d.err" % (job["name"], w, attempt))
            cmd = [exe, "--tier", tier, "--seed", str(seed), "--worker", str(w), "--nworkers", str(nworkers),
                   "--start", str(start), "--log", lp]
            with open(ep, "wb") as ef:
                wenv = env_for(flavour, workdir, "%s.w%d" % (job["name"], w), cpu_limit)
                if job.get("prelude"):
                    wenv["VF_PRELUDE"] = "1"
                p = subprocess.Popen(cmd, stdout=ef, stderr=ef, env=wenv, cwd=workdir)
                last_size, last_change, timed_out = -1, time.time(), False
                while True:
                    try:
                        p.wait(timeout=2.0)
                        break
                    except subprocess.TimeoutExpired:
                        try:
                            sz = os.path.getsize(lp)
                        except OSError:
                            sz = 0
                        if sz != last_size:
                            last_size, last_change = sz, time.time()
                        elif time.time() - last_change > job.get("case_timeout", CASE_TIMEOUT):
                            timed_out = True
                            p.kill()
                            p.wait()
                            break
            with lock:
                open_idx, done, open_tag = parse_log(lp, res, job, None)
                where = res.open_where
            rc = p.returncode
            with open(ep, "r", errors="replace") as ef:
                err = ef.read()
            if done and rc == 0:
                return
            if done and rc != 0:
                # died after the last case (leak report at exit, ...)
                with lock:
                    res.violations.append(dict(key=classify_crash(err, rc), idx=-1, details={"stderr_tail": err[-3000:], "at": "process exit"}, job=job["name"]))
                return
            if open_idx is None:
                # died outside a case: harness failure
                with lock:
                    res.violations.append(dict(key="harness/worker-died-outside-case", idx=-1,
                                               details={"rc": rc, "stderr_tail": err[-3000:]}, job=job["name"]))
                return
            with lock:
                if timed_out:
                    res.inconclusive.append(dict(idx=open_idx, reason="watchdog: no progress for %ds" % job.get("case_timeout", CASE_TIMEOUT), job=job["name"]))
                elif rc == RC_CPU:
                    hung.append((open_idx, open_tag, where))
                else:
                    ck = classify_crash(err, rc)
                    if open_tag:
                        ck = open_tag + "/" + ck
                    res.violations.append(dict(key=ck, idx=open_idx,
                                               details={"rc": rc, "stderr_tail": err[-3000:]}, job=job["name"]))
            start = open_idx + 1
            if attempt > 200:
                with lock:
                    res.violations.append(dict(key="harness/too-many-worker-deaths", idx=open_idx, details={}, job=job["name"]))
                return

    with ThreadPoolExecutor(max_workers=nworkers) as pool:
        list(pool.map(worker, range(nworkers)))
    # cases stopped by the CPU watchdog: re-run each one alone (the machine is quiet now); a case that again burns the whole CPU budget without
    # finishing did not terminate. That is a violation where termination is the property (job["hang_is_violation"]), inconclusive elsewhere.
    for (idx, tag, where) in hung[:40]:
        again = False
        if job.get("hang_is_violation"):
            lp = os.path.join(workdir, "%s.hang%d.log" % (job["name"], idx))
            with open(os.devnull, "wb") as dn:
                p = subprocess.run([exe, "--tier", tier, "--seed", str(seed), "--only", str(idx), "--log", lp], stdout=dn, stderr=dn,
                                   env=env_for(flavour, workdir, "hang", cpu_limit), cwd=workdir)
            again = p.returncode == RC_CPU
        if again:
            key = (tag + "/" if tag else "") + "no-termination" + ("/" + where if where else "")
            res.violations.append(dict(key=key, idx=idx, job=job["name"],
                                       details={"what": "the case used %d CPU-seconds without returning, twice (second time run alone)" % cpu_limit, "where": where or ""}))
        else:
            res.inconclusive.append(dict(idx=idx, reason="cpu watchdog: %ds of CPU in one case%s" % (cpu_limit, "" if job.get("hang_is_violation") else " (not judged by this check; see C13)"), job=job["name"]))
    for (idx, tag, where) in hung[40:]:
        res.inconclusive.append(dict(idx=idx, reason="cpu watchdog: %ds of CPU in one case (not re-run: more than 40 such cases)" % cpu_limit, job=job["name"]))
    if len(hung) > 40 and job.get("hang_is_violation"):
        res.violations.append(dict(key="no-termination/many", idx=hung[40][0], job=job["name"], details={"cases_stopped_by_cpu_watchdog": len(hung)}))
    # ThreadSanitizer reports (logged, not fatal): de-duplicate by stack pair without line numbers
    if flavour == "tsan":
        seen = {}
        for f in glob.glob(os.path.join(workdir, "tsan.%s.*" % job["name"])) + glob.glob(os.path.join(workdir, "tsan.%s.w*" % job["name"])):
            try:
                txt = open(f, errors="replace").read()
            except OSError:
                continue
            for blk in txt.split("WARNING: ThreadSanitizer:")[1:]:
                frames = re.findall(r"#0 ([^\s]+)", blk)[:2]
                kind = blk.strip().split("\n")[0].strip().split(" (")[0].replace(" ", "-")
                key = "tsan/%s/%s" % (kind, "|".join(sorted(re.sub(r"<.*", "", x) for x in frames)))
                if key not in seen:
                    seen[key] = blk[:3000]
        for k, blk in seen.items():
            res.violations.append(dict(key=k, idx=-1, details={"report": blk}, job=job["name"]))
            res.tsan_reports.append(k)
    res.wall = time.time() - t0
    return res


# ------------------------------------------------------------------------------------ canaries
CANARY_SRC = {
    "asan": "#include <cstdlib>\nint main(){ volatile int* p = (int*) malloc(4 * sizeof(int)); int i = 4; p[i] = 1; return p[0]; }\n",
    "tsan": "#include <thread>\nint g; int main(){ std::thread a([]{ for(int i=0;i<100000;i++) g++; }); std::thread b([]{ for(int i=0;i<100000;i++) g++; }); a.join(); b.join(); return 0; }\n",
}


def canary(flavour):
    """Positive control: the sanitizer of this flavour must report a deliberate error."""
    kind = "tsan" if flavour == "tsan" else ("asan" if flavour.startswith("asan") else None)
    if kind is None:
        return None
    fl = FLAVOURS[flavour]
    d = os.path.join(BUILD_ROOT, "canary-%s" % flavour)
    os.makedirs(d, exist_ok=True)
    src, exe = os.path.join(d, "canary.cpp"), os.path.join(d, "canary")
    if not os.path.exists(exe):
        open(src, "w").write(CANARY_SRC[kind])
        r = subprocess.run(fl["cxx"] + fl["flags"] + [src, "-o", exe] + fl.get("ldflags", []), stdout=subprocess.PIPE, stderr=subprocess.STDOUT, text=True)
        if r.returncode != 0:
            raise RuntimeError("canary build failed:\n" + r.stdout)
    e = env_for(flavour, d, "canary")
    e["TSAN_OPTIONS"] = "halt_on_error=1:exitcode=66"
    r = subprocess.run([exe], stdout=subprocess.PIPE, stderr=subprocess.STDOUT, text=True, env=e)
    if kind == "asan":
        return "AddressSanitizer: heap-buffer-overflow" in r.stdout
    return "ThreadSanitizer: data race" in r.stdout


# ------------------------------------------------------------------------------------ findings
def load_known():
    p = os.path.join(VERIF, "known_findings.json")
    if not os.path.exists(p):
        return []
    return json.load(open(p)).get("findings", [])


def match_known(known, prop, key):
    for k in known:
        if k["property"] == prop and fnmatch.fnmatchcase(key, k["key"]):
            return k
    return None


def safe(s):
    return re.sub(r"[^A-Za-z0-9_.=-]+", "_", s)[:120]


# ------------------------------------------------------------------------------------ main
def run_property(pid, tier, seed, only=None):
    t0 = time.time()
    prop = PROPS[pid]
    workdir = os.path.join(BUILD_ROOT, "run-%s-%d" % (pid, os.getpid()))
    shutil.rmtree(workdir, ignore_errors=True)
    os.makedirs(workdir, exist_ok=True)
    harness_fail = []
    jobs = [j for j in prop["jobs"] if tier in j.get("tiers", ["quick", "thorough"])]
    # canaries
    canaries = {}
    for fl in sorted(set(j["flavour"] for j in jobs)):
        try:
            c = canary(fl)
        except Exception as ex:  # noqa
            c = False
            harness_fail.append("canary %s: %s" % (fl, ex))
        if c is not None:
            canaries[fl] = bool(c)
            if not c:
                harness_fail.append("canary for flavour %s not detected" % fl)
    # build all jobs (translation units in parallel across jobs)
    exes = {}
    try:
        with ThreadPoolExecutor(max_workers=JOBS) as pool, ThreadPoolExecutor(max_workers=JOBS) as outer:
            futs = [(j["name"], outer.submit(build, j, pool)) for j in jobs + [j for j in prop.get("extra_jobs", []) if tier in j.get("tiers", ["quick", "thorough"])]]
            for n, f in futs:
                exes[n] = f.result()
    except Exception as ex:  # noqa
        log("HARNESS-FAILURE property=%s build: %s" % (pid, ex))
        write_evidence(pid, prop, tier, seed, None, [], [], ["build failed: %s" % str(ex)[:400]], canaries, time.time() - t0)
        return 2
    build_s = time.time() - t0
    results = []
    extra_cov = {}
    for j in jobs:
        if only is not None and j["name"] != only["job"]:
            continue
        if only is not None:
            r = run_single(j, exes[j["name"]], only["tier"], only["seed"], only["idx"], workdir)
        else:
            r = run_job(j, exes[j["name"]], tier, seed, workdir)
        r.job = j
        results.append(r)
    # python-side extra monitors (ltrace purity monitor, hook on/off cross-check, ...)
    for ex in prop.get("extras", []):
        if only is not None:
            continue
        if tier not in ex.get("tiers", ["quick", "thorough"]):
            continue
        try:
            cov, viols = ex["fn"](dict(build=build, run_job=run_job, env_for=env_for, workdir=workdir, tier=tier, seed=seed, REPO=REPO, VERIF=VERIF, FLAVOURS=FLAVOURS, exes=exes, JOBS=JOBS))
            extra_cov[ex["name"]] = cov
            r = JobResult()
            r.job = dict(name=ex["name"], flavour="n/a")
            for v in viols:
                v.setdefault("job", ex["name"])
                v.setdefault("idx", -1)
                r.violations.append(v)
            results.append(r)
        except Exception as e:  # noqa
            harness_fail.append("extra monitor %s failed: %s" % (ex["name"], str(e)[:300]))
    known = load_known()
    # aggregate
    unknown, hit = {}, {}
    for r in results:
        for v in r.violations:
            if v["key"].startswith("harness/"):
                harness_fail.append("%s case %s: %s %s" % (v["job"], v["idx"], v["key"], json.dumps(v["details"])[:300]))
                continue
            k = match_known(known, pid, v["key"])
            if k is not None:
                hit.setdefault(k["key"], dict(k=k, n=0, examples=[]))
                hit[k["key"]]["n"] += 1
                if len(hit[k["key"]]["examples"]) < 2:
                    hit[k["key"]]["examples"].append(dict(case=v["idx"], key=v["key"]))
            else:
                unknown.setdefault(v["key"], []).append(v)
    dump = os.environ.get("VERIF_DUMP")
    if dump:
        with open(dump, "w") as fh:
            for r in results:
                for v in r.violations:
                    fh.write(json.dumps(dict(job=v["job"], idx=v["idx"], key=v["key"], details=v["details"])) + "\n")
    cases = sum(r.cases for r in results)
    nt = set()
    for r in results:
        nt |= set((r.job["name"], h) for h in r.nt)
    if only is None:
        if cases == 0:
            harness_fail.append("no case was executed")
        elif len(nt) < 2:
            harness_fail.append("monitors observed fewer than 2 distinct non-trivial cases")
        for r in results:
            if hasattr(r, "total") and r.cases + sum(1 for v in r.violations if v["key"].startswith("crash/")) + len(r.inconclusive) < r.total:
                harness_fail.append("%s: only %d of %d cases closed" % (r.job["name"], r.cases, r.total))
    for h in hit.values():
        log("KNOWN-FINDING: property=%s %s %s (x%d)" % (pid, h["k"]["key"], h["k"]["what"], h["n"]))
    rdir = os.path.join(OUT_ROOT, "replays", pid)
    replay_paths = []
    if unknown:
        os.makedirs(rdir, exist_ok=True)
    for key, vs in sorted(unknown.items()):
        v = vs[0]
        rp = os.path.join(rdir, safe(key) + ".json")
        with open(rp, "w") as fh:
            json.dump(dict(property=pid, key=key, job=v["job"], tier=tier, seed=seed, idx=v["idx"], occurrences=len(vs),
                           other_cases=[x["idx"] for x in vs[1:20]], details=v["details"]), fh, indent=1)
        replay_paths.append(rp)
        log("VIOLATION property=%s replay=%s" % (pid, rp))
        log("  key=%s cases=%d first=%s" % (key, len(vs), json.dumps(v["details"])[:600]))
    wall = time.time() - t0
    write_evidence(pid, prop, tier, seed, results, sorted(unknown.keys()), hit, harness_fail, canaries, wall,
                   build_s=build_s, extra_cov=extra_cov, only=only)
    shutil.rmtree(workdir, ignore_errors=True)
    incon = sum(len(r.inconclusive) for r in results)
    log("SUMMARY property=%s tier=%s seed=%d cases=%d nontrivial=%d violations=%d known_hit=%d inconclusive=%d wall=%.0fs (build %.0fs)"
        % (pid, tier, seed, cases, len(nt), len(unknown), len(hit), incon, wall, build_s))
    if harness_fail:
        for h in harness_fail[:20]:
            log("HARNESS-FAILURE property=%s %s" % (pid, h))
    if unknown:
        return 1
    if harness_fail:
        return 2
    return 0


def run_single(job, exe, tier, seed, idx, workdir):
    res = JobResult()
    lp = os.path.join(workdir, "replay.log")
    ep = os.path.join(workdir, "replay.err")
    with open(ep, "wb") as ef:
        p = subprocess.run([exe, "--tier", tier, "--seed", str(seed), "--only", str(idx), "--log", lp], stdout=ef, stderr=ef,
                           env=env_for(job["flavour"], workdir, "replay", job.get("cpu_limit", CASE_CPU)), cwd=workdir)
    open_idx, done, open_tag = parse_log(lp, res, job, None)
    err = open(ep, errors="replace").read()
    if p.returncode == RC_CPU:
        if job.get("hang_is_violation"):
            res.violations.append(dict(key=(open_tag + "/" if open_tag else "") + "no-termination" + ("/" + res.open_where if res.open_where else ""), idx=idx,
                                       details={"what": "the case used %d CPU-seconds without returning" % job.get("cpu_limit", CASE_CPU)}, job=job["name"]))
        else:
            res.inconclusive.append(dict(idx=idx, reason="cpu watchdog", job=job["name"]))
    elif p.returncode != 0:
        res.violations.append(dict(key=(open_tag + "/" if open_tag else "") + classify_crash(err, p.returncode), idx=idx, details={"stderr_tail": err[-3000:]}, job=job["name"]))
    res.total = 1
    return res


def write_evidence(pid, prop, tier, seed, results, unknown, hit, harness_fail, canaries, wall, build_s=0.0, extra_cov=None, only=None):
    counters, maxr, samples, perjob, maxr_where = {}, {}, [], {}, {}
    nt = set()
    cases = 0
    incon = []
    if results:
        for r in results:
            cases += r.cases
            for k, v in r.counters.items():
                counters[k] = counters.get(k, 0) + v
            for k, v in r.maxr.items():
                if k not in maxr or v > maxr[k]:
                    maxr[k] = v
                    maxr_where[k] = "%s case %s" % (r.job["name"], r.maxr_case.get(k))
            nt |= set((r.job["name"], h) for h in r.nt)
            for s in r.samples:
                if len(samples) < 8:
                    samples.append(s)
            incon += r.inconclusive
            perjob[r.job["name"]] = dict(flavour=r.job.get("flavour"), cases=r.cases, nontrivial=len(r.nt), wall_s=round(r.wall, 1),
                                         violations=len(r.violations), inconclusive=len(r.inconclusive))
    if not samples:
        samples = [dict(note="no sample recorded")]
    reasons = {}
    for i in incon:
        rr = re.sub(r"\d+", "N", i["reason"])[:80]
        reasons[rr] = reasons.get(rr, 0) + 1
    cov = dict(evaluations=int(counters.get("evals", cases)), driver_cases=cases, distinct_nontrivial=len(nt), rule=prop["rule"], samples=samples,
               exhaustive=bool(prop.get("exhaustive", False)) and tier in prop.get("exhaustive_tiers", ["quick", "thorough"]),
               counters=dict(sorted(counters.items())), worst_ratio_to_allowance=dict(sorted(maxr.items())), worst_ratio_case=dict(sorted(maxr_where.items())),
               jobs=perjob, inconclusive=dict(total=len(incon), by_reason=reasons),
               sanitizer_canaries_detected=canaries,
               known_findings_hit=[dict(key=h["k"]["key"], what=h["k"]["what"], occurrences=h["n"], examples=h["examples"]) for h in (hit.values() if hit else [])],
               unlisted_violation_keys=list(unknown)[:50], harness_failures=harness_fail[:20], build_wall_s=round(build_s, 1))
    if extra_cov:
        cov["extra_monitors"] = extra_cov
    if only is not None:
        cov["replay_of"] = only
    ev = dict(property_id=pid, tier=tier, seed=int(seed), level=prop["level"], coverage=cov, assumptions=prop.get("assumptions", []),
              wall_s=round(wall, 1), violations=len(unknown))
    os.makedirs(os.path.join(OUT_ROOT, "evidence"), exist_ok=True)
    tmp = os.path.join(OUT_ROOT, "evidence", pid + ".json.tmp")
    with open(tmp, "w") as fh:
        json.dump(ev, fh, indent=1)
    os.replace(tmp, os.path.join(OUT_ROOT, "evidence", pid + ".json"))


def main():
    ap = argparse.ArgumentParser()
    ap.add_argument("property", nargs="?")
    ap.add_argument("--tier", default=os.environ.get("VERIF_TIER", "quick"))
    ap.add_argument("--replay")
    ap.add_argument("--prebuild", action="store_true")
    a = ap.parse_args()
    if a.tier not in ("quick", "thorough"):
        a.tier = "quick"
    try:
        seed = int(os.environ.get("VERIF_SEED", "1"))
    except ValueError:
        seed = 1
    os.makedirs(BUILD_ROOT, exist_ok=True)
    if a.prebuild:
        rc = 0
        with ThreadPoolExecutor(max_workers=JOBS) as pool:
            futs = []
            outer = ThreadPoolExecutor(max_workers=JOBS)
            for pid, prop in PROPS.items():
                for j in prop["jobs"] + prop.get("extra_jobs", []):
                    if "quick" in j.get("tiers", ["quick", "thorough"]):
                        futs.append((j["name"], outer.submit(build, j, pool)))
            for n, f in futs:
                try:
                    f.result()
                    log("built %s" % n)
                except Exception as ex:  # noqa
                    log("BUILD FAILED %s: %s" % (n, str(ex)[:2000]))
                    rc = 2
        return rc
    if not a.property or a.property not in PROPS:
        log("usage: check.py <property> [--tier quick|thorough]; known: %s" % " ".join(sorted(PROPS)))
        return 2
    only = None
    if a.replay:
        rp = json.load(open(a.replay))
        only = dict(job=rp["job"], tier=rp.get("tier", "quick"), seed=rp.get("seed", 1), idx=rp["idx"])
        return run_property(a.property, only["tier"], only["seed"], only=only)
    return run_property(a.property, a.tier, seed)


if __name__ == "__main__":
    sys.exit(main())
