#!/bin/bash
# Confirms a seeded change in its scratch worktree: (1) demo passes on the original tree, (2) demo fails with the patch,
# (3) the repository's own test suite builds and passes with the patch.  Usage: confirm_seed.sh <worktree> <seeded-dir> [jobs]
# Writes <seeded-dir>/confirm.log; prints CONFIRMED or NOT-CONFIRMED.
set -u
WT=$1; SD=$2; J=${3:-6}
LOG=$SD/confirm.log
: > $LOG
cd $WT || exit 2
git checkout -q -- . 2>>$LOG
mkdir -p $WT/demo_c
g++ -std=c++17 -O1 -I$WT/include -I/usr/include/eigen3 $SD/demo.cpp -o $WT/demo_c/demo_orig -pthread >>$LOG 2>&1 || { echo "NOT-CONFIRMED demo does not compile on original"; exit 1; }
( cd $WT/demo_c && timeout 1200 ./demo_orig ) >>$LOG 2>&1; RC0=$?
echo "demo on original: rc=$RC0" | tee -a $LOG
git apply $SD/patch.diff >>$LOG 2>&1 || { echo "NOT-CONFIRMED patch does not apply"; exit 1; }
g++ -std=c++17 -O1 -I$WT/include -I/usr/include/eigen3 $SD/demo.cpp -o $WT/demo_c/demo_mut -pthread >>$LOG 2>&1 || { echo "NOT-CONFIRMED demo does not compile with patch"; git checkout -q -- .; exit 1; }
( cd $WT/demo_c && timeout 1200 ./demo_mut ) >>$LOG 2>&1; RC1=$?
echo "demo with patch: rc=$RC1" | tee -a $LOG
rm -rf $WT/_build
cmake -G Ninja -S $WT -B $WT/_build -DCMAKE_BUILD_TYPE=RelWithDebInfo -DBUILD_TESTS=ON -DCMAKE_CXX_FLAGS=-Wno-error >>$LOG 2>&1
cmake --build $WT/_build -j$J >>$LOG 2>&1; RCB=$?
ctest --test-dir $WT/_build -j$J --timeout 900 2>&1 | tail -4 | tee -a $LOG
grep -q "100% tests passed" $LOG; RCT=$?
rm -rf $WT/_build $WT/demo_c
git checkout -q -- .
if [ $RC0 -eq 0 ] && [ $RC1 -ne 0 ] && [ $RCB -eq 0 ] && [ $RCT -eq 0 ]; then echo CONFIRMED | tee -a $LOG; exit 0; fi
echo "NOT-CONFIRMED rc0=$RC0 rc1=$RC1 build=$RCB tests=$RCT" | tee -a $LOG; exit 1
