#!/usr/bin/env python3
"""Regenerates /verif/MANIFEST.json from tools/registry.py + tools/manifest_text.py (single source of truth)."""
import json, os, sys
VERIF = os.path.dirname(os.path.dirname(os.path.abspath(__file__)))
sys.path.insert(0, os.path.join(VERIF, "tools"))
from registry import PROPS  # noqa
from manifest_text import TEXT, HOOK_COMMITS, NOT_APPLICABLE  # noqa

all_ids = [json.loads(l)["id"] for l in open(os.path.join(VERIF, "properties.jsonl"))]
checks = []
for pid in all_ids:
    if pid not in PROPS or pid not in TEXT:
        continue
    t = TEXT[pid]
    checks.append(dict(
        property_id=pid,
        quick_cmd="python3 tools/check.py %s --tier quick" % pid,
        thorough_cmd="python3 tools/check.py %s --tier thorough" % pid,
        evidence_file="/verif/evidence/%s.json" % pid,
        replay_cmd_template="python3 tools/check.py %s --replay {path}" % pid,
        engine="runtime-monitor",
        level_claimed=dict(category=PROPS[pid]["level"], text=t["level_text"], design_ref=t["design_ref"]),
        level_note=t["level_note"],
        technique=t["technique"]))
na = []
for pid in all_ids:
    if pid not in [c["property_id"] for c in checks]:
        na.append(dict(property_id=pid, reason=NOT_APPLICABLE.get(pid, "check not built yet in this round (runtime monitoring applies; see DESIGN.md section 3)")))
m = dict(
    version=1,
    setup_cmd="python3 tools/check.py --prebuild",
    hooks=dict(guard="SPECTRA_VERIF",
               enable="every check compiles its drivers against /repo/include with -DSPECTRA_VERIF (see tools/registry.py FLAVOURS); header-only library, nothing else to build",
               baseline_off_cmd="cmake -G Ninja -S /repo -B /repo/_build -DBUILD_TESTS=ON -DCMAKE_BUILD_TYPE=RelWithDebInfo -DCMAKE_CXX_FLAGS=-Wno-error && cmake --build /repo/_build && ctest --test-dir /repo/_build -j8 --timeout 900",
               source_commits=HOOK_COMMITS, add_only=True),
    engines=[dict(name="runtime-monitor", path="/verif/tools/check.py", serves_properties=[c["property_id"] for c in checks],
                  kind_free_text="builds per-property C++ drivers against the real headers under ASan+UBSan / TSan / plain flavours, runs them as "
                                 "contained worker processes over seeded workloads, applies online oracles (reference-model residuals, invariant hooks, "
                                 "history and fault checkers), matches violations against known_findings.json and writes evidence")],
    checks=checks,
    notes="All checks honour VERIF_SEED and VERIF_TIER. Exit 0 held / 1 unlisted violation / 2 harness failure. Known findings: /verif/known_findings.json.",
    not_applicable=na)
json.dump(m, open(os.path.join(VERIF, "MANIFEST.json"), "w"), indent=1)
print("MANIFEST.json: %d checks, %d not_applicable" % (len(checks), len(na)))
