#!/bin/bash
# Repository's own suite with the guard OFF (the suite never defines SPECTRA_VERIF).
cmake -G Ninja -S /repo -B /repo/_build -DBUILD_TESTS=ON -DCMAKE_BUILD_TYPE=RelWithDebInfo -DCMAKE_CXX_FLAGS=-Wno-error > /dev/null && cmake --build /repo/_build -j${J:-8} 2>&1 | tail -2 && ctest --test-dir /repo/_build -j8 --timeout 900 2>&1 | tail -4
