#!/usr/bin/env python3
"""Reach of the workloads: which lines of /repo/include/Spectra do the monitors' workloads actually execute?

    python3 tools/coverage.py [--tier quick] [--props C01,C02,...] [--out coverage]

Builds every driver once more with clang source-based coverage (no sanitizer), runs the same cases the checks run (same seed, same
worker protocol), merges the profiles and writes
    <out>/summary.json      per header: lines, lines executed, functions, functions executed; per property: which headers it reaches
    <out>/uncovered.txt     every line of the library that no workload executed (the paths the verdicts say nothing about)
This is a maintenance tool (like regen_known.py): no check depends on it, it decides nothing; it tells where the workloads are blind.
"""
import argparse, glob, json, os, re, shutil, subprocess, sys, time
from concurrent.futures import ThreadPoolExecutor

VERIF = os.path.dirname(os.path.dirname(os.path.abspath(__file__)))
sys.path.insert(0, os.path.join(VERIF, "tools"))
import check  # noqa: E402
from registry import PROPS, FLAVOURS, COMMON_WARN  # noqa: E402

FLAVOURS["cov"] = dict(cxx=["clang++"], flags=["-std=c++17", "-O1", "-fprofile-instr-generate", "-fcoverage-mapping", "-DSPECTRA_VERIF", "-pthread"] + COMMON_WARN,
                       ldflags=["-pthread"])


def main():
    ap = argparse.ArgumentParser()
    ap.add_argument("--tier", default="quick")
    ap.add_argument("--props", default=",".join(sorted(PROPS)))
    ap.add_argument("--out", default=os.path.join(VERIF, "coverage"))
    ap.add_argument("--seed", default="1")
    a = ap.parse_args()
    os.makedirs(a.out, exist_ok=True)
    root = os.path.join(check.BUILD_ROOT, "cov-run")
    shutil.rmtree(root, ignore_errors=True)
    os.makedirs(root)
    per_prop = {}
    all_exes, all_profs = [], []
    for pid in a.props.split(","):
        prop = PROPS[pid]
        jobs = []
        for j in prop["jobs"]:
            if a.tier not in j.get("tiers", ["quick", "thorough"]):
                continue
            jj = dict(j)
            jj["flavour"] = "cov"
            jj["flags"] = [f for f in j.get("flags", []) if not f.startswith("-fno-sanitize")]
            jj.pop("prelude", None)
            jobs.append(jj)
        # the same source may be registered several times with another flavour only (c13 / c13n, c19 asan / gcc): one coverage build is enough
        seen, uniq = set(), []
        for j in jobs:
            k = (tuple(j["sources"]), tuple(f for f in j["flags"] if f != "-DC19_SUBSAMPLE"))
            if k not in seen:
                seen.add(k)
                uniq.append(j)
        t0 = time.time()
        with ThreadPoolExecutor(max_workers=check.JOBS) as pool, ThreadPoolExecutor(max_workers=check.JOBS) as outer:
            futs = [(j, outer.submit(check.build, j, pool)) for j in uniq]
            exes = [(j, f.result()) for j, f in futs]
        wd = os.path.join(root, pid)
        os.makedirs(wd)
        os.environ["LLVM_PROFILE_FILE"] = os.path.join(wd, "p-%m-%p.profraw")
        cases = 0
        for j, exe in exes:
            r = check.run_job(j, exe, a.tier, int(a.seed), wd)
            cases += r.cases
        raws = glob.glob(os.path.join(wd, "*.profraw"))
        prof = os.path.join(root, pid + ".profdata")
        subprocess.run(["llvm-profdata-14", "merge", "-sparse", "-o", prof] + raws, check=True)
        for r in raws:
            os.remove(r)
        per_prop[pid] = dict(exes=[e for _, e in exes], prof=prof, cases=cases, wall=round(time.time() - t0))
        all_exes += [e for _, e in exes]
        all_profs.append(prof)
        print("ran %s: %d cases, %d executables, %ds" % (pid, cases, len(exes), time.time() - t0), flush=True)
    merged = os.path.join(root, "all.profdata")
    subprocess.run(["llvm-profdata-14", "merge", "-sparse", "-o", merged] + all_profs, check=True)
    headers = sorted(glob.glob(os.path.join(check.REPO, "include", "Spectra", "**", "*.h"), recursive=True))

    def export(prof, exes):
        objs = [exes[0]]
        for e in exes[1:]:
            objs += ["-object", e]
        r = subprocess.run(["llvm-cov-14", "export", "-summary-only", "-instr-profile=" + prof] + objs + headers, stdout=subprocess.PIPE, text=True, check=True)
        out = {}
        for f in json.loads(r.stdout)["data"][0]["files"]:
            s = f["summary"]
            out[os.path.relpath(f["filename"], os.path.join(check.REPO, "include"))] = dict(
                lines=s["lines"]["count"], lines_hit=s["lines"]["covered"], functions=s["functions"]["count"], functions_hit=s["functions"]["covered"],
                branches=s.get("branches", {}).get("count", 0), branches_hit=s.get("branches", {}).get("covered", 0))
        return out

    total = export(merged, all_exes)
    summary = dict(tier=a.tier, seed=int(a.seed), repo_head=subprocess.run(["git", "-C", check.REPO, "rev-parse", "--short", "HEAD"], stdout=subprocess.PIPE, text=True).stdout.strip(),
                   total=dict(lines=sum(v["lines"] for v in total.values()), lines_hit=sum(v["lines_hit"] for v in total.values()),
                              functions=sum(v["functions"] for v in total.values()), functions_hit=sum(v["functions_hit"] for v in total.values()),
                              branches=sum(v["branches"] for v in total.values()), branches_hit=sum(v["branches_hit"] for v in total.values())),
                   headers_not_instantiated=[os.path.relpath(h, os.path.join(check.REPO, "include")) for h in headers
                                             if os.path.relpath(h, os.path.join(check.REPO, "include")) not in total],
                   per_header=total, per_property={})
    for pid, pp in per_prop.items():
        e = export(pp["prof"], pp["exes"])
        summary["per_property"][pid] = dict(cases=pp["cases"], lines_hit=sum(v["lines_hit"] for v in e.values()),
                                            headers={k: "%d/%d" % (v["lines_hit"], v["lines"]) for k, v in e.items() if v["lines_hit"]})
    json.dump(summary, open(os.path.join(a.out, "summary.json"), "w"), indent=1, sort_keys=True)
    # uncovered lines
    objs = [all_exes[0]]
    for e in all_exes[1:]:
        objs += ["-object", e]
    r = subprocess.run(["llvm-cov-14", "show", "-instr-profile=" + merged, "-show-line-counts-or-regions=false", "-show-expansions=false", "-show-instantiations=false"] + objs + headers,
                       stdout=subprocess.PIPE, text=True)
    cur, unc = None, []
    for line in r.stdout.split("\n"):
        m = re.match(r"^(/\S+\.h):$", line)
        if m:
            cur = os.path.relpath(m.group(1), os.path.join(check.REPO, "include"))
            continue
        m = re.match(r"^\s*(\d+)\|\s*0\|(.*)$", line)
        if m and cur:
            unc.append("%s:%s:%s" % (cur, m.group(1), m.group(2)))
    open(os.path.join(a.out, "uncovered.txt"), "w").write("\n".join(unc) + "\n")
    t = summary["total"]
    print("TOTAL lines %d/%d functions %d/%d branches %d/%d; uncovered lines listed: %d" % (t["lines_hit"], t["lines"], t["functions_hit"], t["functions"], t["branches_hit"], t["branches"], len(unc)))
    shutil.rmtree(root, ignore_errors=True)
    for d in glob.glob(os.path.join(check.BUILD_ROOT, "*-cov-*")):
        shutil.rmtree(d, ignore_errors=True)


if __name__ == "__main__":
    main()
