// C15 - DavidsonSymEigsSolver: Successful means true residuals below tol with unit, orthonormal, rule-ordered pairs; never NaN, whatever the outcome.
#define VF_MAIN
#include "common/framework.hpp"
#include <cstring>
#include "common/oracle.hpp"
#include "common/gen.hpp"
#include "common/solvers.hpp"
#include <Spectra/DavidsonSymEigsSolver.h>
#include <Spectra/MatOp/DenseSymMatProd.h>
#include <Spectra/MatOp/SparseSymMatProd.h>

using T = double;
using namespace vo;
using namespace vs;
using MatXd = Eigen::MatrixXd;
const char* vf_driver() { return "c15_davidson"; }
static const LD C = 200;

static const char* MCLS[] = {"diagonally-dominant", "strongly-dominant", "not-dominant", "block-diagonal", "isolated-diagonal-entries", "diagonal", "dominant-with-repeated-diagonal"};
static const char* GUESS[] = {"none", "orthonormal", "non-orthonormal", "unit-vectors-of-decoupled-coordinates", "rank-deficient(repeated/zero/dependent-column)"};
static const SortRule DRULES[4] = {SortRule::LargestAlge, SortRule::SmallestAlge, SortRule::LargestMagn, SortRule::SmallestMagn};

static MatXd gen(vf::Rng& r, int n, int cls, std::vector<int>& decoupled)
{
    MatXd A = MatXd::Zero(n, n);
    auto symrand = [&](double off) {
        for (int j = 0; j < n; j++) for (int i = j + 1; i < n; i++) { A(i, j) = off * r.gauss(); A(j, i) = A(i, j); }
    };
    switch (cls)
    {
        case 0: symrand(0.05); for (int i = 0; i < n; i++) A(i, i) = (double) (i + 1) + 0.1 * r.gauss(); break;
        case 1: symrand(0.001); for (int i = 0; i < n; i++) A(i, i) = (double) (i + 1) * (r.coin() ? 1 : -1); break;
        case 2: symrand(1.0); for (int i = 0; i < n; i++) A(i, i) = r.gauss(); break;
        case 3:
        {
            const int b = std::max(2, n / 3);
            for (int j = 0; j < n; j++) for (int i = j + 1; i < n; i++) if (i / b == j / b) { A(i, j) = 0.05 * r.gauss(); A(j, i) = A(i, j); }
            for (int i = 0; i < n; i++) A(i, i) = (double) (i + 1) + 0.1 * r.gauss();
            break;
        }
        case 4:
        {
            // some coordinates exactly decoupled: row and column zero apart from the diagonal entry
            symrand(0.05);
            for (int i = 0; i < n; i++) A(i, i) = (double) (i + 1) + 0.1 * r.gauss();
            const int nd = (int) r.range(1, std::max(1, n / 3));
            for (int q = 0; q < nd; q++)
            {
                const int k = (int) r.range(0, n - 1);
                const double dkk = A(k, k);
                A.row(k).setZero(); A.col(k).setZero(); A(k, k) = r.coin() ? dkk : (double) r.range(-3, 3 + n);
                decoupled.push_back(k);
            }
            break;
        }
        case 5: for (int i = 0; i < n; i++) A(i, i) = r.coin(0.5) ? (double) r.range(-4, 4) : r.gauss() * 3; break;
        default:
            symrand(0.05);
            for (int i = 0; i < n; i++) A(i, i) = (double) (1 + i / 2);   // pairs of equal diagonal entries
    }
    return A;
}

template <class Op>
static void run(vf::Ctx& ctx, const MatXd& A, Op& op, const char* opname, int cls, const std::vector<int>& decoupled, const std::string& tag)
{
    auto& r = ctx.rng;
    const int n = (int) A.rows();
    const int nev = (int) (r.coin(0.7) ? r.range(1, std::min(n - 1, 4)) : r.range(1, n - 1));
    const SortRule rule = DRULES[r.range(0, 3)];
    const T tol = r.pick(std::vector<T>{1e-3, 1e-5, 1e-7, 1e-10});
    const long maxit = r.pick(std::vector<long>{1, 5, 20, 100, 100});
    // search-space sizes with initial + correction <= n
    int ninit = (int) r.range(nev, std::max(nev, std::min(n - nev, 2 * nev + 2)));
    int nmax = (int) r.range(std::max(ninit + nev, 2 * nev), std::max(ninit + nev, std::min(n, 10 * nev)));
    if (ninit + nev > n) { ninit = std::max(nev, n - nev); }
    int gk = (int) r.range(0, tag.empty() ? 4 : 3);   // (the fixed corpus keeps its cases: four kinds there)
    if (gk == 3 && decoupled.empty()) gk = 1;
    long set_max = -1, set_corr = -1;
    auto info = [&]() {
        return vf::J().kv("operator", opname).kv("matrix", MCLS[cls]).kv("n", n).kv("nev", nev).kv("initial_size", ninit).kv("max_size", nmax).kv("set_max_search_space_size", set_max).kv("set_correction_size", set_corr).kv("rule", rule_name(rule)).kv("tol", (double) tol)
            .kv("maxit", maxit).kv("guess", GUESS[gk]);
    };
    if (ninit < nev || ninit + nev > n) { ctx.count("skipped_no_legal_sizes"); ctx.count("evals"); return; }
    // the sizes can also be set after construction (exploration cases): a maximal search space beyond n is legitimate (the default, 10 nev, exceeds n for
    // small problems), as is any correction size with initial + correction <= n
    if (tag.empty() && r.coin(0.35))
    {
        if (r.coin(0.7)) set_max = r.range(nmax, 2 * n + 3);
        // correction sizes from nev upward (also above the initial size: no more corrections than Ritz pairs can be formed then). Fewer corrections than
        // wanted pairs leave converged pairs without a direction of their own: the zero-correction defect of section 4.2, not explored here
        if (r.coin(0.5)) set_corr = r.range(nev, std::max(nev, std::min(nev + 2, n - ninit)));
        ctx.count("sizes_set_after_construction");
    }
    auto configure = [&](Spectra::DavidsonSymEigsSolver<Op>& s) {
        if (set_max >= 0) s.set_max_search_space_size(set_max);
        if (set_corr >= 0) s.set_correction_size(set_corr);
    };
    Spectra::DavidsonSymEigsSolver<Op> es(op, nev, ninit, nmax);
    configure(es);
    long ret = -1;
    std::string outcome = "ok";
    try
    {
        if (gk == 0) ret = (long) es.compute(rule, maxit, tol);
        else
        {
            MatXd G(n, ninit);
            if (gk == 1) { G = vg::rand_orth(r, n).leftCols(ninit); }
            else if (gk == 2) { G = vg::rand_gauss(r, n, ninit); for (int j = 0; j < ninit; j++) G.col(j) *= std::pow(10.0, r.uni(-1, 1)); }
            else if (gk == 4)
            {
                // a spanning set that is exactly rank-deficient: a repeated column, a zero column, or an exact combination of two others
                G = vg::rand_gauss(r, n, ninit);
                if (ninit >= 2)
                {
                    const int j = (int) r.range(1, ninit - 1), kind = (int) r.range(0, 2);
                    if (kind == 0) G.col(j) = G.col(j - 1);
                    else if (kind == 1) G.col(j).setZero();
                    else G.col(j) = ninit >= 3 ? MatXd(2.0 * G.col(0) - G.col(j == 1 ? 2 : 1)).col(0) : MatXd(2.0 * G.col(0)).col(0);
                }
            }
            else
            {
                // exact Ritz vectors in the initial space: unit vectors of decoupled coordinates first, random orthonormal completion
                G = vg::rand_gauss(r, n, ninit);
                int c = 0;
                for (int k : decoupled) { if (c >= ninit) break; G.col(c).setZero(); G(k, c) = 1; c++; }
                Eigen::HouseholderQR<MatXd> qr(G);
                MatXd Q = qr.householderQ() * MatXd::Identity(n, ninit);
                G = Q;
            }
            ret = (long) es.compute_with_guess(G, rule, maxit, tol);
        }
    }
    catch (const std::exception& e) { outcome = std::string("exception:") + typeid(e).name(); }
    // history (C06 for this solver): a second compute() with other arguments on the same object must equal a fresh solver's result bit for bit
    if (outcome == "ok" && gk == 0)
    {
        const SortRule rule2 = DRULES[r.range(0, 3)];
        const long maxit2 = r.pick(std::vector<long>{1, 5, 20, 100});
        const T tol2 = r.pick(std::vector<T>{1e-3, 1e-6, 1e-9});
        try
        {
            const long r1 = (long) es.compute(rule2, maxit2, tol2);
            Spectra::DavidsonSymEigsSolver<Op> fresh(op, nev, ninit, nmax);
            configure(fresh);
            const long r2 = (long) fresh.compute(rule2, maxit2, tol2);
            Eigen::VectorXd e1 = es.eigenvalues(), e2 = fresh.eigenvalues();
            MatXd X1 = es.eigenvectors(), X2 = fresh.eigenvectors();
            const bool same = r1 == r2 && es.info() == fresh.info() && es.num_iterations() == fresh.num_iterations() && e1.size() == e2.size() && X1.size() == X2.size() &&
                std::memcmp(e1.data(), e2.data(), sizeof(double) * e1.size()) == 0 && std::memcmp(X1.data(), X2.data(), sizeof(double) * X1.size()) == 0;
            ctx.count("fresh_vs_reused_comparisons");
            if (!same) ctx.violation(tag.empty() ? std::string("DavidsonSymEigsSolver/second-compute-differs-from-fresh-solver") : tag + "/second-compute-differs-from-fresh-solver",
                                     info().kv("second_rule", rule_name(rule2)).kv("second_maxit", maxit2).kv("returned_reused", r1).kv("returned_fresh", r2).str());
            // restore the state the rest of the oracle judges
            ret = (long) es.compute(rule, maxit, tol);
        }
        catch (const std::exception& e) { outcome = std::string("exception:") + typeid(e).name(); }
    }
    ctx.count("evals");
    ctx.count(std::string("matrix/") + MCLS[cls]);
    ctx.count(std::string("guess/") + GUESS[gk]);
    if (outcome != "ok") { ctx.count("outcome/exception"); ctx.violation(tag.empty() ? std::string("DavidsonSymEigsSolver/exception") : tag + "/exception", info().kv("what", outcome).str()); return; }
    ctx.count(std::string("outcome/") + info_name(es.info()));
    Eigen::VectorXd ev = es.eigenvalues();
    MatXd X = es.eigenvectors();
    // always: finite
    if (!all_finite(ev) || !all_finite(X))
    {
        ctx.violation(tag.empty() ? std::string("DavidsonSymEigsSolver/non-finite-result/") + MCLS[cls] + "/" + GUESS[gk] : tag + "/non-finite-result", info().kv("info", info_name(es.info())).kv("returned", ret).str());
        return;
    }
    if (es.info() != Spectra::CompInfo::Successful) return;
    const LD u = unit<T>() * (LD) (1 + es.num_iterations());   // the basis is carried over restarts without re-orthogonalisation: rounding adds up per iteration
    const MatLD AL = A.cast<LD>();
    const LD nA = fnorm(AL);
    auto bad = [&](const char* what, LD obs, LD allow) {
        ctx.violation(tag.empty() ? std::string("DavidsonSymEigsSolver/") + what + "/" + GUESS[gk] : tag + "/successful-but-wrong", info().kv("returned", ret).kv("check", what).kv("observed", obs).kv("allowed", allow).str());
    };
    if (ret != nev) bad("successful-but-count-is-not-nev", (LD) ret, (LD) nev);
    if (ev.size() != nev || X.cols() != nev || X.rows() != n) { bad("shape", (LD) ev.size(), (LD) nev); return; }
    const MatLD XL = X.cast<LD>();
    for (int i = 0; i < nev; i++)
    {
        const LD res = (AL * XL.col(i) - (LD) ev[i] * XL.col(i)).norm();
        const LD allow = (LD) tol + C * n * u * nA;
        if (!within(ctx, tag.empty() ? "residual" : "corpus:residual", res, allow)) bad("true-residual-above-tol", res, allow);
        const LD nx = XL.col(i).norm();
        if (!within(ctx, tag.empty() ? "unit-norm" : "corpus:unit-norm", std::abs(nx - 1), C * n * u)) bad("not-unit-norm", std::abs(nx - 1), C * n * u);
    }
    MatLD Gm = XL.transpose() * XL;
    Gm.diagonal().array() -= LD(1);
    if (!within(ctx, tag.empty() ? "orthonormal" : "corpus:orthonormal", Gm.cwiseAbs().maxCoeff(), C * n * u)) bad("not-orthonormal", Gm.cwiseAbs().maxCoeff(), C * n * u);
    for (int i = 0; i + 1 < nev; i++)
    {
        bool desc;
        const LD a = sort_key(rule, CLD((LD) ev[i]), desc), b = sort_key(rule, CLD((LD) ev[i + 1]), desc);
        const LD slack = 8 * u * std::max(std::abs(a), std::abs(b));
        if (desc ? (a < b - slack) : (a > b + slack)) { bad("not-ordered-by-rule", a, b); break; }
    }
    // the rule's choice against the true spectrum (counted, not judged: Davidson gives no such guarantee in general; see C04)
    {
        Eigen::SelfAdjointEigenSolver<MatXd> ref(A, Eigen::EigenvaluesOnly);
        std::vector<double> sp(ref.eigenvalues().data(), ref.eigenvalues().data() + n);
        bool d0;
        std::sort(sp.begin(), sp.end(), [&](double p, double q) { bool dd; const LD kp = sort_key(rule, CLD((LD) p), dd), kq = sort_key(rule, CLD((LD) q), dd); return dd ? kp > kq : kp < kq; });
        (void) d0;
        bool match = true;
        for (int i = 0; i < nev; i++) match = match && std::abs(sp[i] - ev[i]) <= 1e-6 * (double) nA;
        ctx.count(match ? "selection/top-nev-of-spectrum" : "selection/other-eigenvalues");
    }
    if (es.num_iterations() >= 1) ctx.nontriv(std::string(opname) + "/" + std::to_string(cls) + "/" + std::to_string(n) + "/" + std::to_string(nev) + "/" + std::to_string(ninit) + "/" + std::to_string(nmax) + "/" + rule_name(rule) + "/" + std::to_string(gk) + "/" + std::to_string(A(0, 0)));
    if (ctx.want_sample) ctx.set_sample(info().kv("info", info_name(es.info())).kv("returned", ret).kv("iterations", (long) es.num_iterations()).str());
}

static long n_explore(const vf::Ctx& ctx) { return ctx.thorough ? 100000 : 4000; }
static long n_corpus() { return 400; }
long vf_ncases(const vf::Ctx& ctx) { return n_explore(ctx) + n_corpus(); }

void vf_run_case(vf::Ctx& ctx, long idx)
{
    auto& r = ctx.rng;
    const bool corpus = idx >= n_explore(ctx);
    std::string tag;
    if (corpus)
    {
        const long ci = idx - n_explore(ctx);
        ctx.case_rng("c15_corpus", ci, true);
        tag = "corpus/davidson/" + std::to_string(ci);
        ctx.set_tag(tag);
    }
    const int n = (int) (r.coin(0.5) ? r.range(6, 16) : r.range(17, ctx.thorough && !corpus ? 120 : 60));
    // Matrices aligned with the coordinate axes (diagonal, block diagonal, decoupled coordinates) produce exactly zero residual components and hence exactly zero
    // or linearly dependent correction vectors; the library then fills the search space with arbitrary unit vectors (recorded finding): fixed corpus.
    // (class 1, off-diagonal entries of 1e-3, is numerically axis-aligned as well)
    static const int CLEAN[] = {0, 2, 6}, HARD[] = {3, 4, 5, 1};
    const int cls = corpus ? HARD[r.range(0, 3)] : CLEAN[r.range(0, 2)];
    std::vector<int> decoupled;
    MatXd A = gen(r, n, cls, decoupled);
    // wrapper storage options (exploration cases; from the case number): default, or Upper with only the upper triangle meaningful / stored
    const bool upper = !corpus && ((idx / 2) % 2 == 1);
    ctx.count(upper ? "wrapper_options/Upper" : "wrapper_options/default");
    if (idx % 2 == 0)
    {
        if (upper)
        {
            MatXd Au = A;
            for (int j = 0; j < n; j++) for (int i = j + 1; i < n; i++) Au(i, j) = 7.0;
            Spectra::DenseSymMatProd<T, Eigen::Upper> op(Au);
            run(ctx, A, op, "DenseSymMatProd<Upper>", cls, decoupled, tag);
        }
        else
        {
            Spectra::DenseSymMatProd<T> op(A);
            run(ctx, A, op, "DenseSymMatProd", cls, decoupled, tag);
        }
    }
    else
    {
        if (upper)
        {
            Eigen::SparseMatrix<T> S = Eigen::SparseMatrix<T>(A.sparseView()).triangularView<Eigen::Upper>();
            Spectra::SparseSymMatProd<T, Eigen::Upper> op(S);
            run(ctx, A, op, "SparseSymMatProd<Upper>", cls, decoupled, tag);
        }
        else
        {
            Eigen::SparseMatrix<T> S = A.sparseView();
            Spectra::SparseSymMatProd<T> op(S);
            run(ctx, A, op, "SparseSymMatProd", cls, decoupled, tag);
        }
    }
}
