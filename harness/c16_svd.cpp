// C16 - PartialSVDSolver: finite, non-negative, non-increasing singular values matching the leading ones; orthonormal factors with A V = U S, A'U = V S;
// matrix_U(k)/matrix_V(k) have min(k, nconv) columns and describe the latest compute().
#define VF_MAIN
#include "common/framework.hpp"
#include "common/oracle.hpp"
#include "common/gen.hpp"
#include <Spectra/contrib/PartialSVDSolver.h>

using T = double;
using namespace vo;
using MatXd = Eigen::MatrixXd;
const char* vf_driver() { return "c16_svd"; }
static const LD C = 200, G = 4;
static const char* KIND[] = {"prescribed-singular-values", "gaussian", "rank-deficient", "zero-tail", "scaled", "near-double-leading-values", "equal-singular-values", "graded-leading"};
static const char* STOR[] = {"dense-colmajor", "dense-rowmajor", "sparse-colmajor", "sparse-rowmajor"};

template <class SVD, class Info>
static void judge(vf::Ctx& ctx, SVD& svd, const MatXd& A, const Eigen::VectorXd& sref, int ncomp, long nconv, T tol, const char* phase, Info info, bool factors, const std::string& tag)
{
    const int m = (int) A.rows(), n = (int) A.cols();
    const LD u = unit<T>();
    auto bad = [&](const char* what, LD obs, LD allow) {
        ctx.violation(tag.empty() ? std::string("PartialSVDSolver/") + what : tag + "/inaccurate-triplets", info().kv("phase", phase).kv("check", what).kv("nconv", nconv).kv("observed", obs).kv("allowed", allow).str());
    };
    Eigen::VectorXd s = svd.singular_values();
    if ((long) s.size() != nconv) bad("singular_values-size-differs-from-nconv", (LD) s.size(), (LD) nconv);
    bool ok = true;
    for (long i = 0; i < (long) s.size(); i++) ok = ok && std::isfinite(s[i]) && s[i] >= 0;
    if (!ok) { bad("singular-value-not-finite-or-negative", 0, 0); return; }
    for (long i = 0; i + 1 < (long) s.size(); i++) if (s[i] < s[i + 1]) { bad("singular-values-not-non-increasing", (LD) s[i], (LD) s[i + 1]); break; }
    const LD nA = (LD) sref[0];
    // accessor shape for every k
    for (int k = 0; k <= ncomp + 2; k++)
    {
        MatXd U = svd.matrix_U(k), V = svd.matrix_V(k);
        const long want = std::min<long>(k, nconv);
        ctx.count("accessor_calls", 2);
        if (U.cols() != want || V.cols() != want || (want > 0 && (U.rows() != m || V.rows() != n))) { bad("matrix_U/V-column-count", (LD) U.cols(), (LD) want); return; }
    }
    if (!factors || nconv == 0 || !(nA > 0)) return;
    // requested singular values above 1e-4 ||A||: accuracy and factor identities
    long kk = 0;
    while (kk < nconv && s[kk] > 1e-4 * (double) nA && (LD) sref[kk] > 1e-4L * nA) kk++;
    if (kk == 0) return;
    const MatLD AL = A.cast<LD>();
    const MatLD U = svd.matrix_U((int) kk).template cast<LD>(), V = svd.matrix_V((int) kk).template cast<LD>();
    if (!all_finite(U) || !all_finite(V)) { bad("non-finite-factor", 0, 0); return; }
    const LD smin = (LD) s[kk - 1];
    const LD mn = std::max(std::min(m, n), 10);
    // all ncomp converged: positional comparison with the leading reference values; partly converged: each returned value is one of the ncomp leading ones (distinct)
    std::vector<char> used((size_t) ncomp, 0);
    bool hole = false;   // partly converged and the converged values are not the leading ones: a later wanted value converged before an earlier one
    for (long i = 0; i < kk; i++)
    {
        long j = i;
        if (nconv < ncomp)
        {
            LD best = std::numeric_limits<LD>::infinity();
            for (long q = 0; q < ncomp && q < (long) sref.size(); q++)
                if (!used[(size_t) q] && std::abs((LD) s[i] - (LD) sref[q]) < best) { best = std::abs((LD) s[i] - (LD) sref[q]); j = q; }
            used[(size_t) j] = 1;
            if (j >= nconv) hole = true;
        }
        const LD al = (G * (LD) tol * nA * nA + C * mn * u * nA * nA) / std::max<LD>((LD) sref[j], 1e-300L);
        if (!within(ctx, std::string(tag.empty() ? "" : "corpus:") + "singular-value", std::abs((LD) s[i] - (LD) sref[j]), al)) bad("singular-value-differs-from-reference", std::abs((LD) s[i] - (LD) sref[j]), al);
    }
    if (nconv < ncomp) ctx.count(hole ? "partly_converged/with-hole" : "partly_converged/prefix");
    const LD stretch = (nA / smin) * (nA / smin);
    const LD oal = (G * (LD) tol + C * mn * u) * stretch;
    MatLD GU = U.transpose() * U, GV = V.transpose() * V;
    GU.diagonal().array() -= LD(1); GV.diagonal().array() -= LD(1);
    if (!within(ctx, std::string(tag.empty() ? "" : "corpus:") + "U-orthonormal", GU.cwiseAbs().maxCoeff(), oal)) bad("U-not-orthonormal", GU.cwiseAbs().maxCoeff(), oal);
    if (!within(ctx, std::string(tag.empty() ? "" : "corpus:") + "V-orthonormal", GV.cwiseAbs().maxCoeff(), oal)) bad("V-not-orthonormal", GV.cwiseAbs().maxCoeff(), oal);
    const VecLD sl = s.head(kk).cast<LD>();
    const LD ral = (G * (LD) tol + C * mn * u) * nA * nA / smin;
    const LD r1 = fnorm(MatLD(AL * V - U * sl.asDiagonal())), r2 = fnorm(MatLD(AL.transpose() * U - V * sl.asDiagonal()));
    if (!within(ctx, std::string(tag.empty() ? "" : "corpus:") + "AV=US", r1, ral)) bad("AV-differs-from-US", r1, ral);
    if (!within(ctx, std::string(tag.empty() ? "" : "corpus:") + "A'U=VS", r2, ral)) bad("A'U-differs-from-VS", r2, ral);
    ctx.count("triplets_judged", kk);
}

template <class M> struct Holder { M mat; };
static int g_lead = 0;   // number of leading (separated) singular values of the slow-convergence class, 0 otherwise

template <class M>
static void run(vf::Ctx& ctx, const MatXd& A, const M& Am, int kind, int stor, const Eigen::VectorXd& sref, const std::string& tag)
{
    auto& r = ctx.rng;
    const int m = (int) A.rows(), n = (int) A.cols(), mn = std::min(m, n);
    int ncomp = (int) (r.coin(0.7) ? r.range(1, std::min(mn - 1, 5)) : r.range(1, mn - 1));
    int ncv = (int) (r.coin(0.2) ? mn : std::min(mn, std::max(ncomp + 1, 2 * ncomp + 1 + (int) r.range(0, 8))));
    // slow-convergence class: all leading values wanted (the nearly double pair and the ones after it), little room
    const int ncomp_slow = g_lead > 0 && r.coin(0.8) ? g_lead : 0;
    if (ncomp_slow > 0) { ncomp = ncomp_slow; ncv = std::min(mn, ncomp_slow + (int) r.range(2, 8)); }
    const T tol1 = r.pick(std::vector<T>{1e-10, 1e-8, 1e-6}), tol2 = r.pick(std::vector<T>{1e-10, 1e-8, 1e-6});
    // small limits of every size: partial convergence, also with "holes" (a later wanted value converged before an earlier one)
    const long maxit1 = r.pick(std::vector<long>{1, 2, 3, 4, 6, 8, 1000, 1000}), maxit2 = r.pick(std::vector<long>{1, 3, 5, 7, 10, 1000, 1000, 1000});
    auto info = [&]() {
        return vf::J().kv("kind", KIND[kind]).kv("storage", STOR[stor]).kv("m", m).kv("n", n).kv("ncomp", ncomp).kv("ncv", ncv).kv("maxit_first", maxit1).kv("tol_first", (double) tol1)
            .kv("maxit_second", maxit2).kv("tol_second", (double) tol2);
    };
    const bool factors = (kind != 2 && kind != 3) || true;
    Spectra::PartialSVDSolver<M> svd(Am, ncomp, ncv);
    const long n1 = (long) svd.compute(maxit1, tol1);
    judge(ctx, svd, A, sref, ncomp, n1, tol1, "first-compute", info, factors, tag);
    // history: second compute() with other arguments; the accessors must describe it, not the first one
    const long n2 = (long) svd.compute(maxit2, tol2);
    judge(ctx, svd, A, sref, ncomp, n2, tol2, "second-compute", info, factors, tag);
    {
        Spectra::PartialSVDSolver<M> fresh(Am, ncomp, ncv);
        const long nf = (long) fresh.compute(maxit2, tol2);
        MatXd U1 = svd.matrix_U(ncomp), U2 = fresh.matrix_U(ncomp), V1 = svd.matrix_V(ncomp), V2 = fresh.matrix_V(ncomp);
        Eigen::VectorXd s1 = svd.singular_values(), s2 = fresh.singular_values();
        const bool same = nf == n2 && U1.rows() == U2.rows() && U1.cols() == U2.cols() && V1.cols() == V2.cols() &&
            (U1.size() == 0 || std::memcmp(U1.data(), U2.data(), sizeof(double) * U1.size()) == 0) && (V1.size() == 0 || std::memcmp(V1.data(), V2.data(), sizeof(double) * V1.size()) == 0) &&
            (s1.size() == s2.size()) && (s1.size() == 0 || std::memcmp(s1.data(), s2.data(), sizeof(double) * s1.size()) == 0);
        ctx.count("fresh_vs_reused_comparisons");
        if (!same) ctx.violation(tag.empty() ? std::string("PartialSVDSolver/second-compute-differs-from-fresh-solver") : tag + "/second-compute-differs-from-fresh-solver", info().kv("nconv_reused", n2).kv("nconv_fresh", nf).str());
    }
    ctx.count("evals");
    ctx.count(std::string("kind/") + KIND[kind]);
    ctx.count(std::string("storage/") + STOR[stor]);
    ctx.count(m > n ? "shape/tall" : (m < n ? "shape/wide" : "shape/square"));
    if (n2 >= 1) ctx.nontriv(std::string(KIND[kind]) + "/" + STOR[stor] + "/" + std::to_string(m) + "x" + std::to_string(n) + "/" + std::to_string(ncomp) + "/" + std::to_string(ncv) + "/" + std::to_string(A(0, 0)));
    if (ctx.want_sample) ctx.set_sample(info().kv("nconv_first", n1).kv("nconv_second", n2).str());
}

static long n_explore(const vf::Ctx& ctx) { return ctx.thorough ? 50000 : 2400; }
static long n_corpus() { return 80; }
long vf_ncases(const vf::Ctx& ctx) { return n_explore(ctx) + n_corpus(); }

void vf_run_case(vf::Ctx& ctx, long idx)
{
    auto& r = ctx.rng;
    const bool corpus = idx >= n_explore(ctx);
    std::string tag;
    if (corpus)
    {
        const long ci = idx - n_explore(ctx);
        ctx.case_rng("c16_corpus", ci, true);
        tag = "corpus/svd/" + std::to_string(ci);
        ctx.set_tag(tag);
    }
    const int shape = (int) (idx % 3);
    int m = (int) r.range(3, ctx.thorough && !corpus ? 80 : 40), n = (int) r.range(3, ctx.thorough && !corpus ? 80 : 40);
    if (shape == 0 && m <= n) m = n + (int) r.range(1, 10);
    if (shape == 1 && m >= n) n = m + (int) r.range(1, 10);
    if (shape == 2) n = m;
    const int kind = corpus ? 4 : (int) r.range(0, 7);
    if (kind == 5)
    {
        // larger problems: the bulk has to be wide enough for the iteration to take several restarts
        m = (int) r.range(60, 140); n = (int) r.range(60, 140);
        if (shape == 0 && m <= n) m = n + (int) r.range(1, 30);
        if (shape == 1 && m >= n) n = m + (int) r.range(1, 30);
        if (shape == 2) n = m;
    }
    const int mn = std::min(m, n);
    g_lead = 0;
    MatXd A;
    Eigen::VectorXd sv(mn);
    if (kind == 1) A = vg::rand_gauss(r, m, n);
    else
    {
        // A = U S V' with prescribed singular values
        MatXd U = vg::rand_orth(r, m).leftCols(mn), V = vg::rand_orth(r, n).leftCols(mn);
        for (int i = 0; i < mn; i++) sv[i] = 1.0 / (1.0 + i) + 0.01 * r.uni();
        if (kind == 2) { const int rk = (int) r.range(1, std::max(1, mn / 2)); for (int i = rk; i < mn; i++) sv[i] = 0; }
        if (kind == 3) for (int i = mn / 2; i < mn; i++) sv[i] = 1e-9 * r.uni();
        // a multiple of a (partial) isometry: every non-zero singular value is the same, A'A v0 is an exact eigenvector and the Lanczos process breaks down at once
        if (kind == 6) { const double c = std::pow(2.0, (double) r.range(-3, 3)); const int rk = r.coin(0.5) ? mn : (int) r.range(2, std::max(2, mn)); for (int i = 0; i < mn; i++) sv[i] = i < rk ? c : 0.0; }
        // a nearly double value among the leading ones converges late: the converged ones are then not a prefix of the wanted list
        if (kind == 5)
        {
            // leading values well apart except one nearly double pair, followed by a dense bulk close below: slow convergence, and the pair converges last
            const int lead = std::min(mn - 1, (int) r.range(3, 6));
            g_lead = lead;
            for (int i = 0; i < mn; i++) sv[i] = i < lead ? 1.8 - 0.15 * i : 1.05 * std::sqrt(r.uni(0.02, 1.0));
            std::sort(sv.data() + lead, sv.data() + mn, std::greater<double>());
            const int j = (int) r.range(0, std::max(0, lead - 3));
            sv[j + 1] = sv[j] * (1.0 - std::pow(10.0, -(double) r.range(5, 9)));
        }
        // strongly graded leading values: the wanted singular values fall by 2.5 to 3.9 decades (still above the 1e-4 ||A|| from which on the factor identities
        // are judged), the rest lies below them
        if (kind == 7)
        {
            const int lead = std::min(mn - 1, (int) r.range(3, 7));
            g_lead = lead;
            const double dec = r.uni(2.5, 3.9);
            for (int i = 0; i < mn; i++) sv[i] = i < lead ? std::pow(10.0, -dec * i / std::max(1, lead - 1)) : std::pow(10.0, -dec) * r.uni(0.05, 0.5);
            std::sort(sv.data() + lead, sv.data() + mn, std::greater<double>());
        }
        A = U * sv.asDiagonal() * V.transpose();
        // The inner symmetric solver stops at tol * max(eps^(2/3), sigma^2): for ||A||^2 below eps^(2/3) (||A|| < ~1e-5) the absolute floor decides and the requested
        // tolerance is not reached (recorded finding): such scales are confined to the fixed corpus
        if (kind == 4) A *= std::pow(10.0, corpus ? (double) r.range(-8, -4) : (double) r.range(-2, 6));
    }
    Eigen::JacobiSVD<MatXd> ref(A);
    const Eigen::VectorXd sref = ref.singularValues();
    const int stor = (int) r.range(0, 3);
    if (stor == 0) run<MatXd>(ctx, A, A, kind, stor, sref, tag);
    else if (stor == 1) { Eigen::Matrix<double, Eigen::Dynamic, Eigen::Dynamic, Eigen::RowMajor> Ar = A; run(ctx, A, Ar, kind, stor, sref, tag); }
    else if (stor == 2) { Eigen::SparseMatrix<double> As = A.sparseView(); run(ctx, A, As, kind, stor, sref, tag); }
    else { Eigen::SparseMatrix<double, Eigen::RowMajor> As = A.sparseView(); run(ctx, A, As, kind, stor, sref, tag); }
}
