// C18 - eigenvalue ordering primitive: argsort / SortEigenvalue for every rule and tie.
#define VF_MAIN
#include "common/framework.hpp"
#include <Eigen/Core>
#include <complex>
#include <algorithm>
#include <Spectra/Util/SelectionRule.h>
#include <Spectra/SymEigsSolver.h>
#include <Spectra/SymEigsShiftSolver.h>
#include <Spectra/HermEigsSolver.h>
#include <Spectra/GenEigsSolver.h>
#include <Spectra/GenEigsRealShiftSolver.h>
#include <Spectra/GenEigsComplexShiftSolver.h>
#include <Spectra/MatOp/DenseSymMatProd.h>
#include <Spectra/MatOp/DenseHermMatProd.h>
#include <Spectra/MatOp/DenseSymShiftSolve.h>
#include <Spectra/MatOp/DenseGenMatProd.h>
#include <Spectra/MatOp/DenseGenRealShiftSolve.h>
#include <Spectra/MatOp/DenseGenComplexShiftSolve.h>

using Spectra::SortRule;
using Eigen::Index;

const char* vf_driver() { return "c18_sort"; }

static const SortRule ALL_RULES[9] = {SortRule::LargestMagn, SortRule::LargestReal, SortRule::LargestImag, SortRule::LargestAlge,
                                      SortRule::SmallestMagn, SortRule::SmallestReal, SortRule::SmallestImag, SortRule::SmallestAlge,
                                      SortRule::BothEnds};
static const char* RULE_NAME[9] = {"LargestMagn", "LargestReal", "LargestImag", "LargestAlge", "SmallestMagn",
                                   "SmallestReal", "SmallestImag", "SmallestAlge", "BothEnds"};

// key of the rule, and direction (+1: descending in key, -1: ascending)
template <class T> long double key_of(int r, const T& x)
{
    using std::abs;
    switch (ALL_RULES[r])
    {
        case SortRule::LargestMagn: case SortRule::SmallestMagn: return (long double) abs(x);
        default: return (long double) x;
    }
}
template <class R> long double key_of(int r, const std::complex<R>& x)
{
    using std::abs;
    switch (ALL_RULES[r])
    {
        case SortRule::LargestMagn: case SortRule::SmallestMagn: return (long double) abs(x);
        case SortRule::LargestReal: case SortRule::SmallestReal: return (long double) x.real();
        default: return (long double) abs(x.imag());
    }
}
static bool descending(int r) { return r <= 3 || r == 8; }

template <class T> std::string vec_str(const std::vector<T>& v)
{
    std::ostringstream o;
    o << "[";
    for (size_t i = 0; i < v.size(); i++) o << (i ? "," : "") << v[i];
    o << "]";
    return o.str();
}
static std::string idx_str(const std::vector<Index>& v)
{
    std::ostringstream o;
    o << "[";
    for (size_t i = 0; i < v.size(); i++) o << (i ? "," : "") << v[i];
    o << "]";
    return o.str();
}

// Oracle on one result
template <class T>
static void judge(vf::Ctx& ctx, const char* tname, const char* via, int r, const std::vector<T>& v, const std::vector<Index>& ind)
{
    const size_t n = v.size();
    auto fail = [&](const char* what) {
        ctx.violation(std::string(via) + "/" + tname + "/" + RULE_NAME[r] + "/" + what,
                      vf::J().kv("values", vec_str(v)).kv("result", idx_str(ind)).kv("len", (long) n).str());
    };
    if (ind.size() != n) { fail("wrong-length"); return; }
    std::vector<char> seen(n, 0);
    for (Index i : ind)
    {
        if (i < 0 || (size_t) i >= n || seen[i]) { fail("not-a-permutation"); return; }
        seen[i] = 1;
    }
    bool ident = true;
    for (size_t i = 0; i < n; i++) ident = ident && ((size_t) ind[i] == i);
    if (!ident) ctx.count("non_identity_permutations");
    if (r != 8)
    {
        for (size_t i = 0; i + 1 < n; i++)
        {
            const long double a = key_of(r, v[ind[i]]), b = key_of(r, v[ind[i + 1]]);
            if (descending(r) ? (a < b) : (a > b)) { fail("not-monotone"); return; }
        }
    }
    else
    {
        // BothEnds: for every k the first k images are the ceil(k/2) largest + floor(k/2) smallest (as multisets of values)
        std::vector<long double> d(n);
        for (size_t i = 0; i < n; i++) d[i] = key_of(3, v[i]);
        std::sort(d.begin(), d.end(), [](long double a, long double b) { return a > b; });
        for (size_t k = 0; k <= n; k++)
        {
            std::vector<long double> got, want;
            for (size_t i = 0; i < k; i++) got.push_back(key_of(3, v[ind[i]]));
            const size_t hi = (k + 1) / 2, lo = k / 2;
            for (size_t i = 0; i < hi; i++) want.push_back(d[i]);
            for (size_t i = 0; i < lo; i++) want.push_back(d[n - 1 - i]);
            std::sort(got.begin(), got.end());
            std::sort(want.begin(), want.end());
            if (got != want) { fail("bothends-prefix"); return; }
        }
    }
}

template <class T, SortRule R>
static std::vector<Index> via_class(const std::vector<T>& v)
{
    Spectra::SortEigenvalue<T, R> s(v.data(), (Index) v.size());
    std::vector<Index> a = s.index(), b;
    s.swap(b);
    if (a != b) b.clear(), b.push_back(-7);  // index() and swap() must agree
    return b;
}

// real types: argsort (all nine rules through the dispatcher) + SortEigenvalue for the defined ones
template <class T>
static void check_real(vf::Ctx& ctx, const char* tname, const std::vector<T>& v)
{
    using Vec = Eigen::Matrix<T, Eigen::Dynamic, 1>;
    Vec ev(v.size());
    for (size_t i = 0; i < v.size(); i++) ev[i] = v[i];
    for (int r = 0; r < 9; r++)
    {
        const bool defined = (r == 0 || r == 3 || r == 4 || r == 7 || r == 8);
        bool threw = false, wrong_type = false;
        std::vector<Index> ind;
        try { ind = Spectra::argsort<T>(ALL_RULES[r], ev); }
        catch (const std::invalid_argument&) { threw = true; }
        catch (...) { threw = true; wrong_type = true; }
        ctx.count("sorts");
        if (!defined)
        {
            ctx.count("undefined_rule_calls");
            if (!threw || wrong_type)
                ctx.violation(std::string("argsort/") + tname + "/" + RULE_NAME[r] + "/undefined-rule-not-rejected",
                              vf::J().kv("values", vec_str(v)).kv("threw", threw).kv("wrong_type", wrong_type).str());
            continue;
        }
        if (threw) { ctx.violation(std::string("argsort/") + tname + "/" + RULE_NAME[r] + "/defined-rule-rejected", vf::J().kv("values", vec_str(v)).str()); continue; }
        judge(ctx, tname, "argsort", r, v, ind);
        // len argument: prefix sort
        if (v.size() >= 2)
        {
            const Index len = (Index) v.size() - 1;
            std::vector<Index> ind2 = Spectra::argsort<T>(ALL_RULES[r], ev, len);
            std::vector<T> pre(v.begin(), v.begin() + len);
            judge(ctx, tname, "argsort-len", r, pre, ind2);
            ctx.count("sorts");
        }
    }
    judge(ctx, tname, "SortEigenvalue", 0, v, via_class<T, SortRule::LargestMagn>(v));
    judge(ctx, tname, "SortEigenvalue", 3, v, via_class<T, SortRule::LargestAlge>(v));
    judge(ctx, tname, "SortEigenvalue", 4, v, via_class<T, SortRule::SmallestMagn>(v));
    judge(ctx, tname, "SortEigenvalue", 7, v, via_class<T, SortRule::SmallestAlge>(v));
    ctx.count("sorts", 4);
}

template <class R>
static void check_complex(vf::Ctx& ctx, const char* tname, const std::vector<std::complex<R>>& v)
{
    using C = std::complex<R>;
    judge(ctx, tname, "SortEigenvalue", 0, v, via_class<C, SortRule::LargestMagn>(v));
    judge(ctx, tname, "SortEigenvalue", 1, v, via_class<C, SortRule::LargestReal>(v));
    judge(ctx, tname, "SortEigenvalue", 2, v, via_class<C, SortRule::LargestImag>(v));
    judge(ctx, tname, "SortEigenvalue", 4, v, via_class<C, SortRule::SmallestMagn>(v));
    judge(ctx, tname, "SortEigenvalue", 5, v, via_class<C, SortRule::SmallestReal>(v));
    judge(ctx, tname, "SortEigenvalue", 6, v, via_class<C, SortRule::SmallestImag>(v));
    ctx.count("sorts", 6);
}

template <class T> static std::vector<T> real_alphabet()
{
    const T tiny = std::numeric_limits<T>::min() * T(4);
    return {T(-2), T(-1), T(-0.0), T(0.0), T(1), T(2), tiny};
}
template <class R> static std::vector<std::complex<R>> cplx_alphabet()
{
    using C = std::complex<R>;
    return {C(0, 0), C(1, 0), C(-1, 0), C(0, 1), C(0, -1), C(1, 1), C(1, -1), C(-1, 1), C(-1, -1), C(2, 0)};
}

static long ipow(long b, int e) { long r = 1; while (e-- > 0) r *= b; return r; }

// ---- case table: (kind, type, length, chunk)
struct CaseDesc { int kind; int type; int len; long first, count; };  // kind 0 real-exhaustive 1 cplx-exhaustive 2 real-random 3 cplx-random
static std::vector<CaseDesc> g_cases;
static const long CHUNK = 12000;

static void build_cases(const vf::Ctx& ctx)
{
    if (!g_cases.empty()) return;
    const int maxr = ctx.thorough ? 7 : 6, maxc = ctx.thorough ? 7 : 5;
    for (int t = 0; t < 3; t++)
        for (int L = 0; L <= maxr; L++)
        {
            long tot = ipow(7, L);
            for (long f = 0; f < tot; f += CHUNK) g_cases.push_back({0, t, L, f, std::min(CHUNK, tot - f)});
        }
    for (int t = 0; t < 2; t++)
        for (int L = 0; L <= maxc; L++)
        {
            if (t == 1 && L > maxc - 1) continue;  // complex<float>: one length less
            long tot = ipow(10, L);
            for (long f = 0; f < tot; f += CHUNK) g_cases.push_back({1, t, L, f, std::min(CHUNK, tot - f)});
        }
    const int nrand = ctx.thorough ? 2000 : 200;
    for (int i = 0; i < nrand; i++) g_cases.push_back({2 + (i % 2), i % 3, 0, i, 1});
    g_cases.push_back({9, 0, 0, 0, 1});   // the solvers' own rejection of undefined rules
}

long vf_ncases(const vf::Ctx& ctx) { build_cases(ctx); return (long) g_cases.size(); }

template <class T>
static void run_real_exh(vf::Ctx& ctx, const char* tname, const CaseDesc& c)
{
    auto al = real_alphabet<T>();
    std::vector<T> v(c.len);
    long ties = 0;
    for (long k = c.first; k < c.first + c.count; k++)
    {
        long x = k;
        bool tie = false;
        int cnt[7] = {0, 0, 0, 0, 0, 0, 0};
        for (int i = 0; i < c.len; i++) { int d = x % 7; x /= 7; v[i] = al[d]; if (++cnt[d] > 1) tie = true; }
        if (tie || (cnt[2] && cnt[3]) || (cnt[1] && cnt[4]) || (cnt[0] && cnt[5])) ties++;
        check_real<T>(ctx, tname, v);
    }
    ctx.count("vectors", c.count); ctx.count("evals", c.count);
    ctx.count("vectors_with_key_ties", ties);
    if (c.len >= 2) ctx.nontriv(std::string("real/") + tname + "/" + std::to_string(c.len) + "/" + std::to_string(c.first));
    if (ctx.want_sample) ctx.set_sample(vf::J().kv("kind", "exhaustive-real").kv("type", tname).kv("length", c.len).kv("first_index", c.first).kv("count", c.count).kv("last_vector", vec_str(v)).str());
}
template <class R>
static void run_cplx_exh(vf::Ctx& ctx, const char* tname, const CaseDesc& c)
{
    auto al = cplx_alphabet<R>();
    std::vector<std::complex<R>> v(c.len);
    for (long k = c.first; k < c.first + c.count; k++)
    {
        long x = k;
        for (int i = 0; i < c.len; i++) { v[i] = al[x % 10]; x /= 10; }
        check_complex<R>(ctx, tname, v);
    }
    ctx.count("vectors", c.count); ctx.count("evals", c.count);
    if (c.len >= 2) ctx.nontriv(std::string("cplx/") + tname + "/" + std::to_string(c.len) + "/" + std::to_string(c.first));
    if (ctx.want_sample) ctx.set_sample(vf::J().kv("kind", "exhaustive-complex").kv("type", tname).kv("length", c.len).kv("first_index", c.first).kv("count", c.count).str());
}

template <class T>
static void run_real_rand(vf::Ctx& ctx, const char* tname)
{
    for (int rep = 0; rep < 20; rep++)
    {
        const long n = ctx.rng.coin(0.3) ? ctx.rng.range(8, 40) : ctx.rng.range(41, 2000);
        const int mode = (int) ctx.rng.range(0, 3);
        const long span = ctx.rng.range(1, 12);
        std::vector<T> v(n);
        for (long i = 0; i < n; i++)
        {
            if (mode == 0) v[i] = T(ctx.rng.range(-span, span));                   // heavy ties, sign pairs
            else if (mode == 1) v[i] = T(ctx.rng.gauss());
            else if (mode == 2) v[i] = ctx.rng.coin() ? T(0.0) : T(-0.0);
            else v[i] = T(ctx.rng.range(-2, 2)) * T(std::pow(10.0, (double) ctx.rng.range(-30, 30)));
        }
        check_real<T>(ctx, tname, v);
        ctx.count("vectors"); ctx.count("evals");
        ctx.count("random_long_vectors");
        ctx.nontriv(std::string("rand-real/") + tname + "/" + std::to_string(ctx.idx) + "/" + std::to_string(rep));
        if (ctx.want_sample && rep == 0) ctx.set_sample(vf::J().kv("kind", "random-real").kv("type", tname).kv("length", n).kv("mode", mode).str());
    }
}
template <class R>
static void run_cplx_rand(vf::Ctx& ctx, const char* tname)
{
    for (int rep = 0; rep < 20; rep++)
    {
        const long n = ctx.rng.coin(0.3) ? ctx.rng.range(8, 40) : ctx.rng.range(41, 2000);
        const int mode = (int) ctx.rng.range(0, 2);
        std::vector<std::complex<R>> v(n);
        for (long i = 0; i < n; i++)
        {
            if (mode == 0) v[i] = std::complex<R>(R(ctx.rng.range(-3, 3)), R(ctx.rng.range(-3, 3)));
            else if (mode == 1) { double th = 6.283185307179586 * (double) ctx.rng.range(0, 23) / 24.0; v[i] = std::complex<R>(R(std::cos(th)), R(std::sin(th))); }
            else v[i] = std::complex<R>(R(ctx.rng.gauss()), R(ctx.rng.gauss()));
        }
        // conjugate pairs next to each other, as the Ritz values of a real matrix
        for (long i = 0; i + 1 < n; i += 2) if (ctx.rng.coin(0.5)) v[i + 1] = std::conj(v[i]);
        check_complex<R>(ctx, tname, v);
        ctx.count("vectors"); ctx.count("evals");
        ctx.count("random_long_vectors");
        ctx.nontriv(std::string("rand-cplx/") + tname + "/" + std::to_string(ctx.idx) + "/" + std::to_string(rep));
        if (ctx.want_sample && rep == 0) ctx.set_sample(vf::J().kv("kind", "random-complex").kv("type", tname).kv("length", n).kv("mode", mode).str());
    }
}

// "... and by the solvers": every one of the nine rules as selection and as sorting argument of every solver class; the ones that are not defined for
// the solver's value type must be rejected with std::invalid_argument, the defined ones accepted.
template <class Solver>
static void solver_rules(vf::Ctx& ctx, const char* name, Solver& es, bool general)
{
    using Spectra::SortRule;
    static const SortRule ALL[9] = {SortRule::LargestMagn, SortRule::LargestReal, SortRule::LargestImag, SortRule::LargestAlge, SortRule::SmallestMagn,
                                    SortRule::SmallestReal, SortRule::SmallestImag, SortRule::SmallestAlge, SortRule::BothEnds};
    static const char* NAME[9] = {"LargestMagn", "LargestReal", "LargestImag", "LargestAlge", "SmallestMagn", "SmallestReal", "SmallestImag", "SmallestAlge", "BothEnds"};
    auto defined = [&](int i, bool as_sorting) {
        const bool alge = (i == 3 || i == 7), magn = (i == 0 || i == 4), reim = (i == 1 || i == 2 || i == 5 || i == 6), both = (i == 8);
        if (general) return magn || reim;
        return magn || alge || (both && !as_sorting);
    };
    for (int pos = 0; pos < 2; pos++)
        for (int i = 0; i < 9; i++)
        {
            bool threw = false, other = false;
            try
            {
                es.init();
                if (pos == 0) es.compute(ALL[i], 50, 1e-8);
                else es.compute(general ? SortRule::LargestMagn : SortRule::LargestAlge, 50, 1e-8, ALL[i]);
            }
            catch (const std::invalid_argument&) { threw = true; }
            catch (...) { other = true; }
            const bool def = defined(i, pos == 1);
            ctx.count("solver_rule_calls");
            if (other || threw == def)
                ctx.violation(std::string(name) + (def ? "/defined-rule-rejected" : "/undefined-rule-accepted") + (pos == 0 ? "/as-selection" : "/as-sorting"),
                              vf::J().kv("solver", name).kv("rule", NAME[i]).kv("position", pos == 0 ? "selection" : "sorting").kv("threw_invalid_argument", threw).kv("threw_other", other).str());
        }
}

static void run_solver_rules(vf::Ctx& ctx)
{
    const int n = 12;
    Eigen::MatrixXd G(n, n);
    for (int j = 0; j < n; j++) for (int i = 0; i < n; i++) G(i, j) = std::sin(1.0 + 3.7 * i + 1.3 * j * j);
    const Eigen::MatrixXd S = G + G.transpose();
    Eigen::MatrixXcd H = S.cast<std::complex<double>>();
    for (int j = 0; j < n; j++) for (int i = 0; i < j; i++) { H(i, j) += std::complex<double>(0, G(i, j)); H(j, i) = std::conj(H(i, j)); }
    { Spectra::DenseSymMatProd<double> op(S); Spectra::SymEigsSolver<Spectra::DenseSymMatProd<double>> es(op, 3, 8); solver_rules(ctx, "SymEigsSolver", es, false); }
    { Spectra::DenseHermMatProd<std::complex<double>> op(H); Spectra::HermEigsSolver<Spectra::DenseHermMatProd<std::complex<double>>> es(op, 3, 8); solver_rules(ctx, "HermEigsSolver", es, false); }
    { Spectra::DenseSymShiftSolve<double> op(S); Spectra::SymEigsShiftSolver<Spectra::DenseSymShiftSolve<double>> es(op, 3, 8, 0.37); solver_rules(ctx, "SymEigsShiftSolver", es, false); }
    { Spectra::DenseGenMatProd<double> op(G); Spectra::GenEigsSolver<Spectra::DenseGenMatProd<double>> es(op, 3, 8); solver_rules(ctx, "GenEigsSolver", es, true); }
    { Spectra::DenseGenRealShiftSolve<double> op(G); Spectra::GenEigsRealShiftSolver<Spectra::DenseGenRealShiftSolve<double>> es(op, 3, 8, 0.37); solver_rules(ctx, "GenEigsRealShiftSolver", es, true); }
    { Spectra::DenseGenComplexShiftSolve<double> op(G); Spectra::GenEigsComplexShiftSolver<Spectra::DenseGenComplexShiftSolve<double>> es(op, 3, 8, 0.37, 0.21); solver_rules(ctx, "GenEigsComplexShiftSolver", es, true); }
    ctx.count("evals");
    ctx.nontriv("solver-rules");
}

void vf_run_case(vf::Ctx& ctx, long idx)
{
    build_cases(ctx);
    const CaseDesc& c = g_cases[idx];
    if (c.kind == 9) { run_solver_rules(ctx); return; }
    switch (c.kind)
    {
        case 0:
            if (c.type == 0) run_real_exh<double>(ctx, "double", c);
            else if (c.type == 1) run_real_exh<float>(ctx, "float", c);
            else run_real_exh<long double>(ctx, "long double", c);
            break;
        case 1:
            if (c.type == 0) run_cplx_exh<double>(ctx, "complex<double>", c);
            else run_cplx_exh<float>(ctx, "complex<float>", c);
            break;
        case 2:
            if (c.type == 0) run_real_rand<double>(ctx, "double");
            else if (c.type == 1) run_real_rand<float>(ctx, "float");
            else run_real_rand<long double>(ctx, "long double");
            break;
        default:
            if (c.type == 0) run_cplx_rand<double>(ctx, "complex<double>");
            else run_cplx_rand<float>(ctx, "complex<float>");
    }
}
