// C07 - the Krylov factorization invariant holds wherever the factorization is passed on (init / extend / compress / breakdown).
// Workload 1: solver runs of the zoo with the online checker installed at the guarded hook. Workload 2: the Arnoldi / Lanczos classes
// driven directly through restart sequences. One solver group per build (-DZOO_GROUP=0|1|2).
#define VF_MAIN
#include "common/facmon.hpp"
#include "common/framework.hpp"
#include "common/zoo.hpp"
#include <Eigen/SparseCholesky>
#include <Eigen/Eigenvalues>

using T = double;
using namespace vz;
using namespace vo;
const char* vf_driver() { return "c07_krylov"; }

static LD cond_of(const Eigen::MatrixXd& M)
{
    Eigen::JacobiSVD<Eigen::MatrixXd> svd(M);
    const double smin = svd.singularValues()[M.rows() - 1];
    return smin > 0 ? (LD) (svd.singularValues()[0] / smin) : std::numeric_limits<LD>::infinity();
}
static MatCLD inv_ld(const MatCLD& M) { return Eigen::FullPivLU<MatCLD>(M).inverse(); }

// dense extended-precision model of the operator the factorization iterates with, and of its inner product
static bool build_reference(const Data<T>& d, vm::Monitor& mon)
{
    const int n = d.n;
    const MatCLD I = MatCLD::Identity(n, n);
    mon.B.resize(0, 0);
    mon.kappaB = 1; mon.opnoise = 1;
    mon.lanczos = !family_is_gen(d.family);
    mon.u = unit<T>();
    const MatCLD A = d.family == 2 ? MatCLD(d.AH.template cast<CLD>()) : MatCLD(d.A.template cast<CLD>());
    const MatCLD Bm = d.B.size() ? MatCLD(d.B.template cast<CLD>()) : MatCLD();
    switch (d.family)
    {
        case 0: case 1: case 2: case 5: case 6: mon.OP = A; break;
        case 3: case 4: case 7: case 8:
        {
            Eigen::MatrixXd S = d.A.template cast<double>() - Eigen::MatrixXd::Identity(n, n) * (double) d.sigma;
            mon.opnoise = cond_of(S);
            mon.OP = inv_ld(A - CLD((LD) d.sigma) * I);
            break;
        }
        case 9: case 10:
        {
            // Re[(A - sigma I)^-1] = (A - sr I) [(A - sr I)^2 + si^2 I]^-1
            const MatCLD Z = A - CLD((LD) d.sigma) * I;
            const MatCLD P = Z * Z + CLD((LD) d.sigmai * (LD) d.sigmai) * I;
            Eigen::MatrixXcd S = d.A.template cast<std::complex<double>>();
            S.diagonal().array() -= std::complex<double>((double) d.sigma, (double) d.sigmai);
            Eigen::JacobiSVD<Eigen::MatrixXcd> svd(S);
            mon.opnoise = (LD) (svd.singularValues()[0] / svd.singularValues()[n - 1]);
            mon.OP = Z * inv_ld(P);
            break;
        }
        case 11:
        {
            // inv(L) A inv(L'), B = L L' (Eigen's dense LLT, the decomposition the wrapper holds)
            Eigen::LLT<Eigen::MatrixXd> llt(d.B.template cast<double>());
            if (llt.info() != Eigen::Success) return false;
            const MatCLD L = Eigen::MatrixXd(llt.matrixL()).cast<CLD>();
            const MatCLD Li = inv_ld(L);
            mon.OP = Li * A * Li.adjoint();
            mon.opnoise = cond_of(d.B.template cast<double>());
            break;
        }
        case 13:
            mon.B = Bm; mon.kappaB = cond_of(d.B.template cast<double>()); mon.opnoise = mon.kappaB;
            mon.OP = inv_ld(Bm) * A;
            break;
        case 14:
            mon.B = Bm; mon.kappaB = cond_of(d.B.template cast<double>());
            mon.opnoise = cond_of(d.A.template cast<double>() - (double) d.sigma * d.B.template cast<double>());
            mon.OP = inv_ld(A - CLD((LD) d.sigma) * Bm) * Bm;
            break;
        case 15:
            // buckling: K = d.A (positive definite, inner product), K_G = d.B
            mon.B = A; mon.kappaB = cond_of(d.A.template cast<double>());
            mon.opnoise = cond_of(d.A.template cast<double>() - (double) d.sigma * d.B.template cast<double>());
            mon.OP = inv_ld(A - CLD((LD) d.sigma) * Bm) * A;
            break;
        case 16:
            mon.B = Bm; mon.kappaB = cond_of(d.B.template cast<double>());
            mon.opnoise = cond_of(d.A.template cast<double>() - (double) d.sigma * d.B.template cast<double>());
            mon.OP = inv_ld(A - CLD((LD) d.sigma) * Bm) * (A + CLD((LD) d.sigma) * Bm);
            break;
        default: return false;
    }
    if (!(mon.opnoise < 1e10L) || !(mon.kappaB < 1e10L) || !all_finite(mon.OP)) return false;
    mon.normOP = fnorm(mon.OP);
    return true;
}

static void report(vf::Ctx& ctx, vm::Monitor& mon, const std::string& keybase, const std::string& tag, const vf::J& info)
{
    std::set<std::string> seen;
    for (auto& f : mon.findings)
    {
        if (!seen.insert(f.what).second) continue;
        vf::J j = info;
        j.kv("check", f.what).kv("at_event", f.event).kv("point", f.point).kv("k", f.k).kv("observed", f.observed).kv("allowed", f.allowed);
        ctx.violation(tag.empty() ? keybase + "/" + f.what : tag + "/invariant", j.str());
    }
    for (auto& kv : mon.worst) ctx.maxratio((tag.empty() ? "" : "corpus:") + kv.first, kv.second);
    mon.worst.clear();
    ctx.count("hook_events", mon.events);
    ctx.count("hook/init", mon.n_init);
    ctx.count("hook/extend", mon.n_extend);
    ctx.count("hook/compress", mon.n_compress);
    ctx.count("hook/breakdown", mon.n_breakdown);
}

// ------------------------------------------------------------------------------------------ workload 1: solver runs
template <class Fac>
static void run_solver(vf::Ctx& ctx, const Fac& fac, const std::string& tag, bool clean)
{
    using Scalar = typename Fac::Scalar;
    using Vec = Eigen::Matrix<Scalar, Eigen::Dynamic, 1>;
    auto& r = ctx.rng;
    const auto& d = fac.d;
    vm::Monitor mon;
    if (!build_reference(d, mon)) { ctx.count("skipped_ill_conditioned_reference"); ctx.count("evals"); return; }
    std::unique_ptr<typename Fac::Ops> ops;
    std::unique_ptr<typename Fac::Solver> es;
    try { ops = fac.make_ops(); es = fac.make_solver(*ops); }
    catch (const std::exception&) { ctx.count("operator_refused_input"); ctx.count("evals"); return; }
    const SortRule sel = r.pick(fac.select_rules());
    const std::vector<long> maxits = clean ? std::vector<long>{1, 2, 5, 10, 30, 50} : std::vector<long>{1, 2, 5, 10, 50, 300};
    const long maxit = r.pick(maxits);
    // general family, clean domain: tolerances of >= 1e4 eps only (closer to eps the Arnoldi iteration keeps restarting at rounding level: recorded finding, corpus)
    const T tol = (clean && Fac::is_gen) ? r.pick(std::vector<T>{1e-10, 1e-8, 1e-6, 1e-3}) : r.pick(std::vector<T>{1e-12, 1e-10, 1e-6, 1e-3});
    const int sk = clean ? (int) r.range(0, 1) : (int) r.range(0, 3);
    static const char* SK[] = {"default", "gaussian", "unit-vector", "constant"};
    auto info = vf::J().kv("workload", "solver").kv("solver", FAMILY[d.family]).kv("class", d.classname).kv("n", d.n).kv("nev", d.nev).kv("ncv", d.ncv).kv("scale", d.scale)
                    .kv("sigma", (double) d.sigma).kv("selection", rule_name(sel)).kv("maxit", maxit).kv("tol", (double) tol).kv("start", SK[sk]);
    mon.install();
    std::string outcome = "ok";
    long ret = -1;
    try
    {
        // the hand-over to the Ritz extraction: when compute() returns, the factorization it worked on has the advertised dimension ncv and satisfies the
        // invariants (no hook fires there: a compute() that skips the extension, or works on a stale factorization, raises no event at all)
        auto handover = [&]() {
            auto& f = SpectraVerifAccess::fac(*es);
            const long k = (long) f.subspace_dim();
            ctx.count("handover_checks");
            if (k != d.ncv) mon.findings.push_back(vm::Finding{"k differs from the advertised dimension (ncv) when compute() returns", (LD) k, (LD) d.ncv, mon.events, k, "handover"});
            vfh::event("handover", f, (Eigen::Index) k);
        };
        // one to three sessions on the same object: init()/init(v), then one or two compute()
        const int sessions = r.coin(0.6) ? 1 : (int) r.range(2, 3);
        for (int ses = 0; ses < sessions; ses++)
        {
            const int sks = ses == 0 ? sk : (clean ? (int) r.range(0, 1) : (int) r.range(0, 3));
            if (sks == 0) es->init();
            else
            {
                Vec v(d.n);
                for (int i = 0; i < d.n; i++) v[i] = sks == 1 ? Scalar(T(r.gauss())) : (sks == 2 ? Scalar(T(i == d.n / 3 ? 1 : 0)) : Scalar(T(1)));
                es->init(v.data());
            }
            ret = (long) es->compute(ses == 0 ? sel : r.pick(fac.select_rules()), ses == 0 ? maxit : r.pick(maxits), tol, fac.sort_rules()[0]);
            handover();
            // the symmetric family continues cleanly after a compute(); exercise that too
            if (!Fac::is_gen && r.coin(0.3)) { ret = (long) es->compute(r.pick(fac.select_rules()), r.pick(maxits), tol, fac.sort_rules()[0]); handover(); }
            ctx.count("sessions");
        }
    }
    catch (const std::exception&) { outcome = "exception"; }
    vm::Monitor::uninstall();
    ctx.count("outcome/" + outcome);
    // Arnoldi has no relative breakdown test: runs that keep restarting at rounding level are a recorded finding class (corpus only)
    if (clean && Fac::is_gen && mon.n_compress > 60) { ctx.count("not_judged/stagnating_run"); mon.findings.clear(); mon.worst.clear(); }
    report(ctx, mon, FAMILY[d.family], tag, info);
    ctx.count("evals");
    ctx.count(std::string("family/") + FSHORT[d.family]);
    ctx.count("restarts", mon.n_compress);
    if (mon.n_compress >= 1 && mon.n_extend >= 1)
        ctx.nontriv(std::string(FSHORT[d.family]) + "/" + d.classname + "/" + std::to_string(d.n) + "/" + std::to_string(d.nev) + "/" + std::to_string(d.ncv) + "/" + std::to_string(maxit) + "/" + std::to_string(mon.events) + "/" + std::to_string((double) d.scale));
    if (ctx.want_sample) ctx.set_sample(info.kv("outcome", outcome).kv("returned", ret).kv("hook_events", mon.events).kv("restarts", mon.n_compress).kv("breakdowns", mon.n_breakdown).str());
}

// ------------------------------------------------------------------------------------------ workload 2: factorization classes driven directly
template <class S> struct DenseOp
{
    using Scalar = S;
    Eigen::Matrix<S, Eigen::Dynamic, Eigen::Dynamic> M;
    Eigen::Index rows() const { return M.rows(); }
    Eigen::Index cols() const { return M.cols(); }
    void perform_op(const S* x, S* y) const
    {
        Eigen::Map<const Eigen::Matrix<S, Eigen::Dynamic, 1>> xv(x, M.cols());
        Eigen::Map<Eigen::Matrix<S, Eigen::Dynamic, 1>> yv(y, M.rows());
        yv.noalias() = M * xv;
    }
};

// kind 0: Arnoldi real, 1: Lanczos real symmetric, 2: Lanczos complex Hermitian, 3: Lanczos with B-inner product (OP = inv(B) A)
template <class S, bool LAN, bool WITHB>
static void run_direct(vf::Ctx& ctx, const std::string& tag, bool clean, int kindno)
{
    using Mat = Eigen::Matrix<S, Eigen::Dynamic, Eigen::Dynamic>;
    using Vec = Eigen::Matrix<S, Eigen::Dynamic, 1>;
    using Real = typename Eigen::NumTraits<S>::Real;
    using RMat = Eigen::Matrix<Real, Eigen::Dynamic, Eigen::Dynamic>;
    using BOpT = typename std::conditional<WITHB, DenseOp<S>, Spectra::IdentityBOp>::type;
    using AOp = Spectra::ArnoldiOp<S, DenseOp<S>, BOpT>;
    using FacT = typename std::conditional<LAN, Spectra::Lanczos<S, AOp>, Spectra::Arnoldi<S, AOp>>::type;
    static const char* KN[] = {"Arnoldi<double>", "Lanczos<double>", "Lanczos<complex<double>>", "Lanczos<double> with B inner product"};
    auto& r = ctx.rng;
    const int n = clean ? (int) (r.coin(0.5) ? r.range(5, 14) : r.range(15, 50)) : (int) r.range(2, 40);
    const int m = (int) r.range(LAN ? 2 : 3, n);
    const double scale = clean ? (r.coin(0.6) ? 1.0 : std::pow(10.0, (double) r.range(-2, 2))) : std::pow(10.0, (double) r.range(-8, 8));
    int cls;
    DenseOp<S> op, bop;
    vm::Monitor mon;
    mon.u = unit<S>();
    mon.lanczos = LAN;
    if constexpr (!LAN)
    {
        static const int CLEAN[] = {0, 1, 6, 11};
        cls = clean ? CLEAN[r.range(0, 3)] : (int) r.range(0, vg::N_GEN_CLASS - 1);
        op.M = vg::gen_matrix(r, n, cls, scale).template cast<S>();
    }
    else
    {
        static const int CLEAN[] = {0, 6, 7, 10, 11};
        cls = clean ? CLEAN[r.range(0, 4)] : (int) r.range(0, vg::N_SYM_CLASS - 1);
        if constexpr (Eigen::NumTraits<S>::IsComplex) op.M = vg::herm_matrix(r, n, cls, scale).template cast<S>();
        else op.M = vg::sym_matrix(r, n, cls, scale).template cast<S>();
    }
    mon.OP = op.M.template cast<CLD>();
    if (WITHB)
    {
        Eigen::MatrixXd Q = vg::rand_orth(r, n);
        Eigen::VectorXd e(n);
        const double lc = clean ? r.uni(0, 2) : r.uni(0, 5);
        for (int i = 0; i < n; i++) e[i] = std::pow(10.0, -lc * i / std::max(1, n - 1));
        Eigen::MatrixXd Bd = Q * e.asDiagonal() * Q.transpose();
        for (int j = 0; j < n; j++) for (int i = 0; i < j; i++) Bd(i, j) = Bd(j, i);
        bop.M = Bd.template cast<S>();
        mon.B = bop.M.template cast<CLD>();
        mon.kappaB = std::pow(10.0L, (LD) lc);
        // OP = inv(B) A is self-adjoint in the B inner product; it is formed here once (double) and handed to the class as a dense operator
        if constexpr (!Eigen::NumTraits<S>::IsComplex) op.M = (Bd.inverse() * op.M.template cast<double>()).template cast<S>();
        mon.OP = op.M.template cast<CLD>();
        mon.opnoise = mon.kappaB;   // OP is only B-self-adjoint up to the rounding of its formation
    }
    mon.normOP = fnorm(mon.OP);
    if (!(mon.normOP > 0)) { ctx.count("evals"); return; }
    auto info = vf::J().kv("workload", "direct").kv("class_under_test", KN[kindno]).kv("matrix", LAN ? vg::SYM_CLASS[cls] : vg::GEN_CLASS[cls]).kv("n", n).kv("m", m).kv("scale", scale);
    // start vector: gaussian; outside the clean domain also an eigenvector or a vector in a small invariant subspace
    Vec v0(n);
    for (int i = 0; i < n; i++) v0[i] = S(Real(r.gauss()));
    const char* sk = "gaussian";
    if (!clean && !WITHB && r.coin(0.5))
    {
        Eigen::EigenSolver<Eigen::MatrixXd> ev(Eigen::MatrixXd(op.M.real().template cast<double>()));
        const int d = (int) r.range(1, std::max(1, m - 1));
        v0.setZero();
        for (int q = 0; q < d; q++) { const int j = (int) r.range(0, n - 1); for (int i = 0; i < n; i++) v0[i] += S(Real(ev.eigenvectors()(i, j).real() * r.gauss())); }
        if (v0.norm() == Real(0)) v0[0] = S(1);
        sk = "invariant-subspace";
    }
    info.kv("start", sk);
    mon.install();
    std::string outcome = "ok";
    long restarts = 0;
    try
    {
        Spectra::IdentityBOp idb;
        const BOpT* bptr;
        if constexpr (WITHB) bptr = &bop; else bptr = &idb;
        FacT fac(AOp(op, *bptr), m);
        Eigen::Index nops = 0;
        Eigen::Map<const Vec> mv(v0.data(), n);
        fac.init(mv, nops);
        fac.factorize_from(1, m, nops);
        const long nrestart = clean ? r.range(1, ctx.thorough ? 60 : 25) : r.range(1, 40);   // corpus cases are the same in both tiers
        for (long it = 0; it < nrestart; it++)
        {
            const int k = (int) r.range(1, m - (LAN ? 1 : 2));
            if (k >= m) break;
            // shifts: the m-k unwanted Ritz values of H under a random rule (exact shifts, as the solvers use), occasionally arbitrary ones
            if constexpr (LAN)
            {
                Eigen::SelfAdjointEigenSolver<RMat> es(RMat(fac.matrix_H().real()));
                std::vector<Real> sh(es.eigenvalues().data(), es.eigenvalues().data() + m);
                if (r.coin()) std::reverse(sh.begin(), sh.end());
                if (r.coin(0.15)) for (auto& x : sh) x = Real(r.gauss() * mon.normOP);
                RMat Q = RMat::Identity(m, m);
                Spectra::TridiagQR<Real> dec(m);
                for (int i = k; i < m; i++)
                {
                    dec.compute(RMat(fac.matrix_H().real()), sh[i]);
                    dec.apply_YQ(Q);
                    fac.compress_H(dec);
                }
                fac.compress_V(Q);
            }
            else
            {
                Eigen::EigenSolver<RMat> es(RMat(fac.matrix_H().real()), false);
                std::vector<std::complex<Real>> sh(es.eigenvalues().data(), es.eigenvalues().data() + m);
                // keep conjugate pairs adjacent; random rotation of the list as "rule"
                std::rotate(sh.begin(), sh.begin() + (long) r.range(0, m - 1), sh.end());
                RMat Q = RMat::Identity(m, m);
                Spectra::DoubleShiftQR<Real> ds(m);
                Spectra::UpperHessenbergQR<Real> hb(m);
                int applied = 0;
                for (int i = 0; applied < m - k && i < m; i++)
                {
                    const bool pair = sh[i].imag() != 0 && i + 1 < m && sh[i + 1] == std::conj(sh[i]) && applied + 2 <= m - k;
                    if (pair)
                    {
                        ds.compute(RMat(fac.matrix_H().real()), Real(2) * sh[i].real(), std::norm(sh[i]));
                        ds.apply_YQ(Q);
                        fac.compress_H(ds);
                        applied += 2; i++;
                        ctx.count("direct/double_shifts");
                    }
                    else
                    {
                        hb.compute(RMat(fac.matrix_H().real()), sh[i].real());
                        hb.apply_YQ(Q);
                        fac.compress_H(hb);
                        applied += 1;
                        ctx.count("direct/single_shifts");
                    }
                }
                fac.compress_V(Q);
            }
            fac.factorize_from(fac.subspace_dim(), m, nops);
            restarts++;
        }
    }
    catch (const std::exception& e) { outcome = std::string("exception: ") + e.what(); }
    vm::Monitor::uninstall();
    ctx.count(outcome == "ok" ? "outcome/ok" : "outcome/exception");
    report(ctx, mon, KN[kindno], tag, info);
    ctx.count("evals");
    ctx.count(std::string("direct/") + KN[kindno]);
    ctx.count("restarts", restarts);
    if (mon.n_compress >= 1 && mon.n_extend >= 1)
        ctx.nontriv(std::string("direct/") + std::to_string(kindno) + "/" + std::to_string(cls) + "/" + std::to_string(n) + "/" + std::to_string(m) + "/" + std::to_string(restarts) + "/" + std::to_string(scale) + "/" + std::to_string(mon.events));
    if (ctx.want_sample) ctx.set_sample(info.kv("outcome", outcome).kv("restarts", restarts).kv("hook_events", mon.events).kv("breakdowns", mon.n_breakdown).str());
}

// ------------------------------------------------------------------------------------------ case table
static const int C07_FAMILIES[] = {0, 2, 3, 5, 7, 9, 11, 13, 14, 15, 16};
static std::vector<int> my_families()
{
    std::vector<int> v;
    for (int f : C07_FAMILIES) if (family_group(f) == ZOO_GROUP) v.push_back(f);
    return v;
}
static long n_solver(const vf::Ctx& ctx) { return ctx.thorough ? 20000 : 700; }
static long n_direct(const vf::Ctx& ctx) { return ctx.thorough ? 20000 : 700; }
static long n_corpus() { return 160; }
long vf_ncases(const vf::Ctx& ctx) { return n_solver(ctx) + n_direct(ctx) + n_corpus(); }

static void direct_dispatch(vf::Ctx& ctx, long i, const std::string& tag, bool clean)
{
#if ZOO_GROUP == 0
    if (i % 3 == 0) run_direct<double, true, false>(ctx, tag, clean, 1);
    else if (i % 3 == 1) run_direct<std::complex<double>, true, false>(ctx, tag, clean, 2);
    else run_direct<double, true, true>(ctx, tag, clean, 3);
#elif ZOO_GROUP == 1
    run_direct<double, false, false>(ctx, tag, clean, 0);
#else
    run_direct<double, true, true>(ctx, tag, clean, 3);
#endif
}

void vf_run_case(vf::Ctx& ctx, long idx)
{
    auto& r = ctx.rng;
    const auto fams = my_families();
    if (idx < n_solver(ctx))
    {
        const int f = fams[(size_t) (idx % (long) fams.size())];
        Data<T> d = make_data<T>(r, f, ctx.thorough ? 60 : 40, false);
        if (d.n < 5) { d = make_data<T>(r, f, 40, false); }
        if (d.n < 5) { ctx.count("evals"); return; }
        with_family<T>(d, [&](auto fac) { run_solver(ctx, fac, "", true); });
        return;
    }
    idx -= n_solver(ctx);
    if (idx < n_direct(ctx)) { direct_dispatch(ctx, idx, "", true); return; }
    idx -= n_direct(ctx);
    // fixed corpus over the finding-prone domain (seed-independent)
    ctx.case_rng("c07_corpus", idx, true);
    if (idx % 2 == 0)
    {
        const int f = fams[(size_t) ((idx / 2) % (long) fams.size())];
        const std::string tag = std::string("corpus/") + FSHORT[f] + "/" + std::to_string(idx);
        ctx.set_tag(tag);
        Data<T> d = make_data<T>(r, f, 40, true);
        with_family<T>(d, [&](auto fac) { run_solver(ctx, fac, tag, false); });
    }
    else
    {
        const std::string tag = "corpus/direct/" + std::to_string(idx);
        ctx.set_tag(tag);
        direct_dispatch(ctx, idx / 2, tag, false);
    }
}
