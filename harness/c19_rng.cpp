// C19 - SimpleRandom is the exact, seed-pure Park-Miller minimal-standard generator.
#define VF_MAIN
#include "common/framework.hpp"
#include <Eigen/Core>
#include <complex>
#include <thread>
#include <mutex>
#include <condition_variable>
// guarded factorization hook: counts the calls of expand_basis (each ends in one of the two breakdown events)
static thread_local long g_expand_calls = 0;
#define SPECTRA_VERIF_FAC_HOOK(point, fac, k) do { if (point[0] == 'b') g_expand_calls++; } while (0)
#include <Spectra/Util/SimpleRandom.h>
#include <Spectra/SymEigsSolver.h>
#include <Spectra/HermEigsSolver.h>
#include <Spectra/GenEigsSolver.h>

const char* vf_driver() { return "c19_rng"; }

static const uint64_t M = 2147483647ULL;  // 2^31 - 1
static inline uint64_t ref_next(uint64_t s) { return (16807ULL * s) % M; }

#ifdef C19_SUBSAMPLE
static const long STRIDE = 2048;   // sanitizer build: every 2048th state (+ both ends of every chunk)
#else
static const long STRIDE = 1;
#endif
static const long NCHUNK = 256;
static const long NSEEDCH = 64;

// kinds: 0 sweep chunk, 1 orbit, 2 seeds chunk (j = 0..4), 3 threads
struct CaseDesc { int kind; long a, b; };
static std::vector<CaseDesc> g_cases;
static void build_cases(const vf::Ctx& ctx)
{
    if (!g_cases.empty()) return;
    for (long c = 0; c < NCHUNK; c++) g_cases.push_back({0, c, 0});
#ifndef C19_SUBSAMPLE
    g_cases.push_back({1, 0, 0});
#endif
    for (long c = 0; c < NSEEDCH; c++) for (long j = 0; j < 5; j++) g_cases.push_back({2, c, j});
    for (long t = 0; t < (ctx.thorough ? 16 : 4); t++) g_cases.push_back({3, t, 0});
    for (long t = 0; t < (ctx.thorough ? 400 : 60); t++) g_cases.push_back({4, t, 0});
    for (long t = 0; t < (ctx.thorough ? 60 : 12); t++) g_cases.push_back({5, t, 0});
}
long vf_ncases(const vf::Ctx& ctx) { build_cases(ctx); return (long) g_cases.size(); }

template <class T> static const char* tn();
template <> const char* tn<float>() { return "float"; }
template <> const char* tn<double>() { return "double"; }
template <> const char* tn<long double>() { return "long double"; }

template <class T>
static bool draw_ok(vf::Ctx& ctx, long s, uint64_t want_state)
{
    long st = s;
    const T r = Spectra::RandomScalar<T>::run(st);
    const T want = T((long) want_state) / T(2147483647UL) - T(0.5);
    const T tol = T(4) * std::numeric_limits<T>::epsilon();
    if ((uint64_t) st != want_state || !(r >= T(-0.5) && r <= T(0.5)) || std::abs(r - want) > tol)
    {
        ctx.violation(std::string("draw/") + tn<T>(), vf::J().kv("state", s).kv("new_state", st).kv("want_state", (long) want_state).kv("draw", (long double) r).kv("want", (long double) want).str());
        return false;
    }
    long st2 = s;
    const std::complex<T> c = Spectra::RandomScalar<std::complex<T>>::run(st2);
    const uint64_t w2 = ref_next(want_state);
    const T wi = T((long) w2) / T(2147483647UL) - T(0.5);
    if ((uint64_t) st2 != w2 || std::abs(c.real() - want) > tol || std::abs(c.imag() - wi) > tol || !(c.imag() >= T(-0.5) && c.imag() <= T(0.5)) ||
        !(c.real() >= T(-0.5) && c.real() <= T(0.5)))
    {
        ctx.violation(std::string("draw/complex<") + tn<T>() + ">", vf::J().kv("state", s).kv("new_state", st2).kv("re", (long double) c.real()).kv("im", (long double) c.imag()).str());
        return false;
    }
    return true;
}

static void sweep(vf::Ctx& ctx, long chunk)
{
    const uint64_t lo = 1 + (uint64_t) chunk * ((M - 1 + NCHUNK - 1) / NCHUNK);
    uint64_t hi = lo + ((M - 1 + NCHUNK - 1) / NCHUNK) - 1;
    if (hi > M - 1) hi = M - 1;
    long n = 0, bad = 0;
    long double mn = 1, mx = -1;
    auto one = [&](uint64_t s) {
        const uint64_t got = (uint64_t) Spectra::next_long_rand((long) s), want = ref_next(s);
        n++;
        if (got != want || got < 1 || got > M - 1)
        {
            if (bad++ < 3) ctx.violation("recurrence", vf::J().kv("state", (long) s).kv("got", (long) got).kv("want", (long) want).str());
            return;
        }
        if (bad < 3)
        {
            if (!draw_ok<double>(ctx, (long) s, want)) bad++;
            if (!draw_ok<float>(ctx, (long) s, want)) bad++;
            if (!draw_ok<long double>(ctx, (long) s, want)) bad++;
        }
        long double r = (long double) want / (long double) M - 0.5L;
        if (r < mn) mn = r;
        if (r > mx) mx = r;
    };
    for (uint64_t s = lo; s <= hi; s += STRIDE) one(s);
    if (STRIDE > 1) one(hi);
    ctx.count("states_swept", n);
    ctx.count("evals", n);
    ctx.count("draws_checked", n * 9);
    ctx.nontriv("sweep/" + std::to_string(chunk));
    if (ctx.want_sample) ctx.set_sample(vf::J().kv("kind", "state-sweep").kv("first_state", (long) lo).kv("last_state", (long) hi).kv("stride", STRIDE).kv("min_draw", mn).kv("max_draw", mx).str());
}

static void orbit(vf::Ctx& ctx)
{
    long s = 1;
    uint64_t steps = 0;
    do { s = Spectra::next_long_rand(s); steps++; } while (s != 1 && steps < M + 5);
    if (steps != M - 1) ctx.violation("orbit-length", vf::J().kv("steps", (long) steps).kv("want", (long) (M - 1)).str());
    ctx.count("orbit_steps", (long) steps);
    ctx.count("evals");
    ctx.nontriv("orbit");
    ctx.set_sample(vf::J().kv("kind", "orbit-from-1").kv("steps_until_return", (long) steps).str());
}

template <class T>
static bool seed_ok(vf::Ctx& ctx, unsigned long seed, int ndraw)
{
    Spectra::SimpleRandom<T> rng(seed);
    uint64_t st = seed ? (seed & M) : 1;
    if (st < 1 || st > M - 1) { ctx.violation("seed/degenerate-initial-state", vf::J().kv("seed", seed).str()); return false; }
    for (int d = 0; d < ndraw; d++)
    {
        st = ref_next(st);
        const T want = T((long) st) / T(2147483647UL) - T(0.5);
        const T got = rng.random();
        if (std::abs(got - want) > T(4) * std::numeric_limits<T>::epsilon() || !(got >= T(-0.5) && got <= T(0.5)))
        {
            ctx.violation(std::string("seed/draw-sequence/") + tn<T>(), vf::J().kv("seed", seed).kv("draw_index", d).kv("got", (long double) got).kv("want", (long double) want).str());
            return false;
        }
    }
    return true;
}

// The stream of ONE generator object is the Park-Miller stream of its seed however the draws are grouped into calls: random(), random_vec(Vector&) and
// random_vec(Index) of lengths 0..9 (odd and even) mixed on the same object, real and complex.
template <class T>
static bool grouping_ok(vf::Ctx& ctx, unsigned long seed, unsigned pattern)
{
    using R = typename Eigen::NumTraits<T>::Real;
    constexpr int per = Eigen::NumTraits<T>::IsComplex ? 2 : 1;
    Spectra::SimpleRandom<T> rng(seed);
    uint64_t st = seed ? (seed & M) : 1;
    std::vector<R> got;
    auto push = [&](const T& v) { const R* p = reinterpret_cast<const R*>(&v); for (int q = 0; q < per; q++) got.push_back(p[q]); };
    unsigned x = pattern * 2654435761u + 12345u;
    for (int call = 0; call < 7; call++)
    {
        x = x * 1664525u + 1013904223u;
        const int kind = (int) ((x >> 28) % 3), len = (int) ((x >> 20) % 10);
        if (kind == 0) push(rng.random());
        else if (kind == 1) { Eigen::Matrix<T, Eigen::Dynamic, 1> v(len); rng.random_vec(v); for (int i = 0; i < len; i++) push(v[i]); }
        else { Eigen::Matrix<T, Eigen::Dynamic, 1> v = rng.random_vec(len); for (int i = 0; i < len; i++) push(v[i]); }
    }
    for (size_t d = 0; d < got.size(); d++)
    {
        st = ref_next(st);
        const R want = R((long) st) / R(2147483647UL) - R(0.5);
        if (std::abs(got[d] - want) > R(4) * std::numeric_limits<R>::epsilon())
        {
            ctx.violation(std::string("seed/stream-depends-on-call-grouping/") + (per == 2 ? "complex<" : "") + tn<R>() + (per == 2 ? ">" : ""),
                          vf::J().kv("seed", seed).kv("pattern", (long) pattern).kv("position_in_stream", (long) d).kv("got", (long double) got[d]).kv("want", (long double) want).str());
            return false;
        }
    }
    ctx.count("call_grouping_patterns");
    return true;
}

static void seeds(vf::Ctx& ctx, long chunk, long j)
{
    const long per = (1L << 20) / NSEEDCH;
    long n = 0;
    for (long i = chunk * per; i < (chunk + 1) * per; i += (STRIDE > 1 ? 64 : 1))
    {
        const unsigned long seed = 2UL * (unsigned long) i + 123UL * (unsigned long) j;
        if (!seed_ok<double>(ctx, seed, 64)) break;
        if ((i & 15) == 0)
        {
            if (!seed_ok<float>(ctx, seed, 16)) break;
            if (!seed_ok<long double>(ctx, seed, 16)) break;
            // complex draws consume two states; vector fill == successive draws
            Spectra::SimpleRandom<std::complex<double>> crng(seed);
            Spectra::SimpleRandom<double> rrng(seed);
            Eigen::VectorXcd cv = crng.random_vec(5);
            Eigen::VectorXd rv(10);
            rrng.random_vec(rv);
            for (int k = 0; k < 5; k++)
                if (cv[k].real() != rv[2 * k] || cv[k].imag() != rv[2 * k + 1])
                {
                    ctx.violation("seed/complex-vector", vf::J().kv("seed", seed).kv("k", k).str());
                    break;
                }
            const unsigned pat = (unsigned) (i >> 4);
            if (!grouping_ok<double>(ctx, seed, pat) || !grouping_ok<float>(ctx, seed, pat + 1) || !grouping_ok<long double>(ctx, seed, pat + 2) ||
                !grouping_ok<std::complex<double>>(ctx, seed, pat + 3) || !grouping_ok<std::complex<float>>(ctx, seed, pat + 4)) break;
        }
        n++;
    }
    ctx.count("seeds_checked", n);
    ctx.count("evals", n);
    ctx.nontriv("seeds/" + std::to_string(chunk) + "/" + std::to_string(j));
    if (ctx.want_sample) ctx.set_sample(vf::J().kv("kind", "library-seeds").kv("form", "2*i+123*j").kv("i_first", chunk * per).kv("i_last", (chunk + 1) * per - 1).kv("j", j).kv("draws_per_seed", 64).str());
}

static uint64_t digest_for(unsigned long base)
{
    uint64_t h = 1469598103934665603ULL;
    auto mix = [&](const void* p, size_t n) { const unsigned char* c = (const unsigned char*) p; for (size_t i = 0; i < n; i++) { h ^= c[i]; h *= 1099511628211ULL; } };
    for (unsigned long s = base; s < base + 40; s++)
    {
        Spectra::SimpleRandom<double> a(s);
        Eigen::VectorXd v = a.random_vec(97);
        mix(v.data(), sizeof(double) * 97);
        Spectra::SimpleRandom<std::complex<float>> b(s);
        Eigen::VectorXcf w = b.random_vec(31);
        mix(w.data(), sizeof(std::complex<float>) * 31);
        Spectra::SimpleRandom<long double> c(s);
        for (int k = 0; k < 9; k++) { long double x = c.random(); mix(&x, 10); }
    }
    return h;
}

static void threads(vf::Ctx& ctx, long t)
{
    const unsigned long base = 123UL * (unsigned long) t;
    // unrelated libc RNG / clock activity must not matter
    srand((unsigned) (t + 17));
    for (int i = 0; i < 100; i++) (void) rand();
    const uint64_t want = digest_for(base);
    (void) time(nullptr);
    srand(1);
    std::vector<uint64_t> got(16, 0);
    std::vector<std::thread> th;
    for (int k = 0; k < 16; k++) th.emplace_back([&, k]() { for (int r = 0; r < 3; r++) got[k] = digest_for(base); });
    for (auto& x : th) x.join();
    for (int k = 0; k < 16; k++)
        if (got[k] != want) ctx.violation("purity/thread-digest", vf::J().kv("thread", k).kv("base_seed", base).str());
    ctx.count("thread_digests", 16);
    ctx.count("evals", 16);
    ctx.nontriv("threads/" + std::to_string(t));
    ctx.set_sample(vf::J().kv("kind", "16-thread-purity").kv("base_seed", base).kv("digest", std::to_string(want)).str());
}

// ---- the vectors a default-initialised solver draws are Park-Miller streams: the start vector of init() is the stream of seed 0, and the vector that
// expand_basis applies the operator to at its first try is the stream of the seed it was called with (2*i for a breakdown at step i). Observed at the
// operator: a recording user-defined operator sees every vector the iteration hands over.
template <class Scalar> struct StreamRef
{
    using Real = typename Eigen::NumTraits<Scalar>::Real;
    static Scalar draw(uint64_t& st, std::false_type) { st = ref_next(st); return Scalar(Real((long) st) / Real(2147483647UL) - Real(0.5)); }
    static Scalar draw(uint64_t& st, std::true_type)
    {
        st = ref_next(st); const Real re = Real((long) st) / Real(2147483647UL) - Real(0.5);
        st = ref_next(st); const Real im = Real((long) st) / Real(2147483647UL) - Real(0.5);
        return Scalar(re, im);
    }
    // does x equal the stream of `seed`, element by element (4 ulp of 0.5)?
    static bool matches(const Scalar* x, int n, unsigned long seed)
    {
        uint64_t st = seed ? (seed & M) : 1;
        const Real tol = Real(4) * std::numeric_limits<Real>::epsilon();
        for (int i = 0; i < n; i++)
        {
            const Scalar w = draw(st, std::integral_constant<bool, Eigen::NumTraits<Scalar>::IsComplex>());
            if (!(std::abs(x[i] - w) <= tol)) return false;
        }
        return true;
    }
};
template <class S>
struct RecOp
{
    using Scalar = S;
    using Mat = Eigen::Matrix<S, Eigen::Dynamic, Eigen::Dynamic>;
    const Mat& A;
    mutable std::vector<Eigen::Matrix<S, Eigen::Dynamic, 1>> inputs;
    explicit RecOp(const Mat& a) : A(a) {}
    Eigen::Index rows() const { return A.rows(); }
    Eigen::Index cols() const { return A.cols(); }
    void perform_op(const S* x, S* y) const
    {
        Eigen::Map<const Eigen::Matrix<S, Eigen::Dynamic, 1>> xv(x, A.cols());
        inputs.push_back(xv);
        Eigen::Map<Eigen::Matrix<S, Eigen::Dynamic, 1>> yv(y, A.rows());
        yv.noalias() = A * xv;
    }
};
template <class Solver, class Op, class Rule>
static void stream_check(vf::Ctx& ctx, const char* name, Op& op, int nev, int ncv, Rule rule, bool want_breakdowns)
{
    using S = typename Op::Scalar;
    const int n = (int) op.rows();
    Solver es(op, nev, ncv);
    auto info = [&]() { return vf::J().kv("solver", name).kv("n", n).kv("nev", nev).kv("ncv", ncv); };
    // the generators are local objects seeded at the call sites: the SAME streams must come again on every later default init() / restart of the same solver
    // object (a generator kept in the object, or anywhere else, would continue its stream instead)
    const int sessions = (int) ctx.rng.range(1, 3);
    for (int sess = 0; sess < sessions; sess++)
    {
        g_expand_calls = 0;
        op.inputs.clear();
        es.init();
        const size_t after_init = op.inputs.size();
        try { es.compute(rule, sess == 0 ? 30 : (long) ctx.rng.range(1, 30), 1e-10); } catch (const std::exception&) {}
        ctx.count("solver_streams/default_inits");
        if (sess > 0) ctx.count("solver_streams/default_inits_on_a_used_object");
        if (after_init < 1 || !StreamRef<S>::matches(op.inputs[0].data(), n, 0))
            ctx.violation(std::string("solver-stream/default-start-vector-is-not-the-stream-of-seed-0/") + name, info().kv("init_number_on_this_object", sess + 1).str());
        long recognised = 0;
        for (size_t q = after_init; q < op.inputs.size(); q++)
            for (int i = 1; i <= ncv; i++)
                if (StreamRef<S>::matches(op.inputs[q].data(), n, 2UL * (unsigned long) i)) { recognised++; break; }
        ctx.count("solver_streams/expand_basis_calls", g_expand_calls);
        ctx.count("solver_streams/first_try_vectors_recognised", recognised);
        if (recognised != g_expand_calls)
            ctx.violation(std::string("solver-stream/restart-vector-is-not-a-park-miller-stream/") + name, info().kv("init_number_on_this_object", sess + 1).kv("expand_basis_calls", g_expand_calls).kv("operator_inputs_equal_to_a_stream_of_seed_2i", recognised).str());
        if (want_breakdowns && g_expand_calls == 0 && sess == 0) { ctx.inconclusive("no breakdown in a rank-deficient run"); break; }
    }
    ctx.count("evals");
}
static void solver_streams(vf::Ctx& ctx, long t)
{
    auto& r = ctx.rng;
    const int n = (int) r.range(8, 60), rank = (int) r.range(1, 3);
    const int ncv = (int) r.range(rank + 4, std::min(n, rank + 12)), nev = (int) r.range(1, std::min(3, ncv - 3));
    const bool deficient = (t % 2 == 0);
    // exactly rank-deficient (diagonal 1..rank, exactly representable) or full-rank generic
    Eigen::MatrixXd A = Eigen::MatrixXd::Zero(n, n);
    if (deficient) for (int i = 0; i < rank; i++) A(i, i) = i + 1;
    else { for (int i = 0; i < n; i++) for (int j = 0; j <= i; j++) A(i, j) = A(j, i) = r.gauss(); }
    switch (t % 3)
    {
        case 0: { RecOp<double> op(A); stream_check<Spectra::SymEigsSolver<RecOp<double>>>(ctx, "SymEigsSolver<double>", op, nev, ncv, Spectra::SortRule::LargestAlge, deficient); break; }
        case 1:
        {
            Eigen::MatrixXd G = A;
            if (deficient) { if (rank >= 2) G(0, 1) = 1; } else for (int i = 0; i < n; i++) for (int j = 0; j < n; j++) G(i, j) = r.gauss();
            RecOp<double> op(G);
            stream_check<Spectra::GenEigsSolver<RecOp<double>>>(ctx, "GenEigsSolver<double>", op, std::min(nev, ncv - 3), ncv, Spectra::SortRule::LargestMagn, deficient);
            break;
        }
        default:
        {
            Eigen::MatrixXcd H = A.cast<std::complex<double>>();
            if (!deficient) for (int i = 0; i < n; i++) for (int j = 0; j < i; j++) { const double im = r.gauss(); H(i, j) += std::complex<double>(0, im); H(j, i) -= std::complex<double>(0, im); }
            RecOp<std::complex<double>> op(H);
            stream_check<Spectra::HermEigsSolver<RecOp<std::complex<double>>>>(ctx, "HermEigsSolver<complex<double>>", op, nev, ncv, Spectra::SortRule::LargestAlge, deficient);
        }
    }
    ctx.nontriv("solver-streams/" + std::to_string(t));
    if (ctx.want_sample) ctx.set_sample(vf::J().kv("kind", "solver-streams").kv("n", n).kv("rank_deficient", deficient).kv("ncv", ncv).str());
}

// ---- "default-initialised solvers are reproducible across ... threads": several threads construct solvers of ONE instantiation on problems of different
// size and call the default init() at the same time. Each thread's operator holds its first application at a rendezvous until every thread has entered its own
// first application (so every init() has drawn its start vector while the others' are still in use), and only then looks at the vector it was handed:
// it must still be the stream of seed 0, and the run must end bit-identical to the same run made alone before.
struct Rendezvous
{
    std::mutex m; std::condition_variable cv; int waiting = 0, parties = 0; bool open = false;
    void arrive() { std::unique_lock<std::mutex> l(m); if (++waiting >= parties) { open = true; cv.notify_all(); } else cv.wait_for(l, std::chrono::seconds(20), [&] { return open; }); }
};
template <class S>
struct GateOp
{
    using Scalar = S;
    using Mat = Eigen::Matrix<S, Eigen::Dynamic, Eigen::Dynamic>;
    const Mat& A; Rendezvous* rv; mutable long calls = 0; mutable int first_ok = -1;
    GateOp(const Mat& a, Rendezvous* r) : A(a), rv(r) {}
    Eigen::Index rows() const { return A.rows(); }
    Eigen::Index cols() const { return A.cols(); }
    void perform_op(const S* x, S* y) const
    {
        if (++calls == 1)
        {
            if (rv) rv->arrive();
            first_ok = StreamRef<S>::matches(x, (int) A.rows(), 0) ? 1 : 0;
        }
        Eigen::Map<const Eigen::Matrix<S, Eigen::Dynamic, 1>> xv(x, A.cols());
        Eigen::Map<Eigen::Matrix<S, Eigen::Dynamic, 1>> yv(y, A.rows());
        yv.noalias() = A * xv;
    }
};
template <class S, class Solver>
static uint64_t gate_run(const Eigen::Matrix<S, Eigen::Dynamic, Eigen::Dynamic>& A, Rendezvous* rv, int& first_ok)
{
    GateOp<S> op(A, rv);
    Solver es(op, 3, 8);
    es.init();
    es.compute(Spectra::SortRule::LargestMagn, 200, 1e-10);
    auto ev = es.eigenvalues();
    auto U = es.eigenvectors();
    first_ok = op.first_ok;
    uint64_t h = vf::Ctx::fnv_bytes(ev.data(), sizeof(ev[0]) * (size_t) ev.size());
    // (complex<double> has no padding; double neither)
    return vf::Ctx::fnv_bytes(U.data(), sizeof(U(0, 0)) * (size_t) U.size(), h);
}
template <class S, class Solver>
static void solver_threads_t(vf::Ctx& ctx, const char* name, long t, bool hermitian)
{
    auto& r = ctx.rng;
    const int T = (int) r.range(2, 6);
    std::vector<Eigen::Matrix<S, Eigen::Dynamic, Eigen::Dynamic>> mats;
    for (int k = 0; k < T; k++)
    {
        const int n = 12 + 5 * k + (int) r.range(0, 3);   // all different
        Eigen::Matrix<S, Eigen::Dynamic, Eigen::Dynamic> A(n, n);
        for (int i = 0; i < n; i++) for (int j = 0; j <= i; j++) { const S v = S(r.gauss()); A(i, j) = v; A(j, i) = v; }
        if (!hermitian) for (int i = 0; i < n; i++) for (int j = 0; j < i; j++) A(j, i) = S(r.gauss());
        mats.push_back(A);
    }
    std::vector<uint64_t> alone(T), conc(T);
    std::vector<int> ok_alone(T, -1), ok_conc(T, -1);
    for (int k = 0; k < T; k++) alone[k] = gate_run<S, Solver>(mats[k], nullptr, ok_alone[k]);
    Rendezvous rv; rv.parties = T;
    std::vector<std::thread> th;
    for (int k = 0; k < T; k++) th.emplace_back([&, k]() { conc[k] = gate_run<S, Solver>(mats[k], &rv, ok_conc[k]); });
    for (auto& x : th) x.join();
    for (int k = 0; k < T; k++)
    {
        if (ok_alone[k] != 1 || ok_conc[k] != 1)
            ctx.violation(std::string("solver-threads/start-vector-is-not-the-stream-of-seed-0/") + name, vf::J().kv("threads", T).kv("thread", k).kv("n", (long) mats[k].rows()).kv("alone_ok", ok_alone[k]).kv("concurrent_ok", ok_conc[k]).str());
        if (alone[k] != conc[k])
            ctx.violation(std::string("solver-threads/result-differs-from-the-run-alone/") + name, vf::J().kv("threads", T).kv("thread", k).kv("n", (long) mats[k].rows()).str());
    }
    ctx.count("solver_threads/launches");
    ctx.count("solver_threads/solvers_started_together", T);
    ctx.count("evals", T);
    ctx.nontriv(std::string("solver-threads/") + name + "/" + std::to_string(t));
    if (ctx.want_sample) ctx.set_sample(vf::J().kv("kind", "solver-threads").kv("solver", name).kv("threads", T).str());
}
static void solver_threads(vf::Ctx& ctx, long t)
{
    switch (t % 3)
    {
        case 0: solver_threads_t<double, Spectra::SymEigsSolver<GateOp<double>>>(ctx, "SymEigsSolver<double>", t, true); break;
        case 1: solver_threads_t<double, Spectra::GenEigsSolver<GateOp<double>>>(ctx, "GenEigsSolver<double>", t, false); break;
        default: solver_threads_t<std::complex<double>, Spectra::HermEigsSolver<GateOp<std::complex<double>>>>(ctx, "HermEigsSolver<complex<double>>", t, true);
    }
}

void vf_run_case(vf::Ctx& ctx, long idx)
{
    build_cases(ctx);
    const CaseDesc& c = g_cases[idx];
    switch (c.kind)
    {
        case 0: sweep(ctx, c.a); break;
        case 1: orbit(ctx); break;
        case 2: seeds(ctx, c.a, c.b); break;
        case 4: solver_streams(ctx, c.a); break;
        case 5: solver_threads(ctx, c.a); break;
        default: threads(ctx, c.a);
    }
}
