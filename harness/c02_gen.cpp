// C02 - GenEigsSolver / GenEigsRealShiftSolver / GenEigsComplexShiftSolver hand back only genuine, unit-norm, distinct eigenpairs
// in the spectrum of A, whatever the outcome and the init()/compute() history. One real scalar type and one solver group per build.
#define VF_MAIN
#include "common/framework.hpp"
#include "common/oracle.hpp"
#include "common/gen.hpp"
#include "common/opwrap.hpp"
#include "common/solvers.hpp"
#include <Spectra/GenEigsSolver.h>
#include <Spectra/GenEigsRealShiftSolver.h>
#include <Spectra/GenEigsComplexShiftSolver.h>
#include <Spectra/MatOp/DenseGenMatProd.h>
#include <Spectra/MatOp/SparseGenMatProd.h>
#include <Spectra/MatOp/DenseGenRealShiftSolve.h>
#include <Spectra/MatOp/SparseGenRealShiftSolve.h>
#include <Spectra/MatOp/DenseGenComplexShiftSolve.h>
#include <Spectra/MatOp/SparseGenComplexShiftSolve.h>

#ifndef C02_T
#define C02_T double
#endif
#ifndef C02_GROUP
#define C02_GROUP 0   // 0: GenEigsSolver  1: GenEigsRealShiftSolver  2: GenEigsComplexShiftSolver
#endif
using T = C02_T;
using CT = std::complex<T>;
using namespace vo;
using namespace vs;
using MatT = Eigen::Matrix<T, Eigen::Dynamic, Eigen::Dynamic>;
using VecT = Eigen::Matrix<T, Eigen::Dynamic, 1>;
using SpT = Eigen::SparseMatrix<T>;
using MatXd = Eigen::MatrixXd;
using MatXcd = Eigen::MatrixXcd;

const char* vf_driver() { return "c02_gen"; }
static const LD C_NORM = 100, C_RES = 200;

static const char* KIND[] = {"GenEigsSolver<DenseGenMatProd>", "GenEigsSolver<SparseGenMatProd>", "GenEigsRealShiftSolver<DenseGenRealShiftSolve>",
                             "GenEigsRealShiftSolver<SparseGenRealShiftSolve>", "GenEigsComplexShiftSolver<DenseGenComplexShiftSolve>",
                             "GenEigsComplexShiftSolver<SparseGenComplexShiftSolve>"};
static const char* KSHORT[] = {"gen-dense", "gen-sparse", "realshift-dense", "realshift-sparse", "cplxshift-dense", "cplxshift-sparse"};

struct Problem
{
    int kind, cls, n, nev, ncv;
    double scale;
    bool clean = true;
    bool tight = false;          // second corpus part: well-behaved classes far from unit norm, tight tolerances, long runs (see c01_sym.cpp)
    std::string tag;
    MatCLD AL;                   // exact entries of the operator's matrix
    MatXd Ad;                    // double copy (reference decompositions)
    Eigen::VectorXcd spec;       // reference spectrum (Eigen::EigenSolver, double)
    MatXcd evecs;
    LD normA = 0;                // ||A||_2
    int mode = 0;                // 0 plain, 1 real shift, 2 complex shift
    T sigmar = 0, sigmai = 0;
    LD normAs = 0, smin = 0;     // real shift: ||A - sigma I||_2 and its smallest singular value
    LD normP = 0, normOP = 0, kappaS = 0;  // complex shift: ||P||_2, ||OP||_2, cond(A - sigma I)
    const char* shiftkind = "";
};
struct ComputeArgs { SortRule sel; long maxit; T tol; SortRule sort; };

static std::string pjson(const Problem& P, const std::string& word, const ComputeArgs& a, const char* startkind)
{
    return vf::J().kv("solver", KIND[P.kind]).kv("scalar", Name<T>::s()).kv("class", vg::GEN_CLASS[P.cls]).kv("n", P.n).kv("nev", P.nev).kv("ncv", P.ncv)
        .kv("scale", P.scale).kv("sigma_re", (LD) P.sigmar).kv("sigma_im", (LD) P.sigmai).kv("shift_kind", P.shiftkind).kv("history", word)
        .kv("selection", rule_name(a.sel)).kv("maxit", a.maxit).kv("tol", (LD) a.tol).kv("sorting", rule_name(a.sort)).kv("start", startkind).str();
}

static LD smin_of(const MatXcd& M)
{
    Eigen::JacobiSVD<MatXcd> svd(M);
    return (LD) svd.singularValues()[M.rows() - 1];
}

template <class Solver>
static void judge(vf::Ctx& ctx, const Problem& P, const Solver& es, long restarts, const ComputeArgs& a, const std::string& shape,
                  const std::string& word, const char* startkind)
{
    const LD u = unit<T>();
    auto evals = es.eigenvalues();
    auto evecs = es.eigenvectors();
    const long k = (long) evals.size();
    const std::string pre = std::string(KIND[P.kind]) + "/";
    auto bad = [&](const char* sub, LD obs, LD allow, long idx) {
        std::string j = pjson(P, word, a, startkind);
        j.pop_back();
        j += "," + vf::J().kv("info", info_name(es.info())).kv("returned", k).kv("restarts", restarts).kv("pair", idx).kv("observed", obs).kv("allowed", allow).str().substr(1);
        if (P.tag.empty()) ctx.violation(pre + sub + "/" + shape, j);
        else ctx.violation(P.tag + "/" + (std::string(sub) == "non-finite" ? "non-finite-result" : std::string(sub) == "shape-mismatch" ? "shape-mismatch" : "inaccurate-pairs"), j);
    };
    ctx.count(std::string("outcome/") + info_name(es.info()));
    if (k == 0) return;
    ctx.count("pairs_judged", k);
    if (evecs.cols() != k || evecs.rows() != P.n) { bad("shape-mismatch", (LD) evecs.cols(), (LD) k, -1); return; }
    const MatCLD X = evecs.template cast<CLD>();
    bool finite = all_finite(X);
    for (long i = 0; i < k; i++) finite = finite && std::isfinite((double) evals[i].real()) && std::isfinite((double) evals[i].imag());
    if (!finite) { bad("non-finite", 0, 0, -1); return; }
    const LD grow = std::sqrt((LD) (1 + restarts));
    const LD eps23 = std::pow(u, LD(2) / 3);
    const LD nn = std::max(P.n, 10), nc = std::max(P.ncv, 10);
    for (long i = 0; i < k; i++)
    {
        const CLD lam((LD) evals[i].real(), (LD) evals[i].imag());
        const LD nx = X.col(i).norm();
        const LD nallow = C_NORM * nc * u * grow;
        if (!within(ctx, std::string(P.clean ? "" : "corpus:") + "unit-norm", std::abs(nx - 1), nallow)) bad("unit-norm", std::abs(nx - 1), nallow, i);
        const LD res = fnorm(VecCLD(P.AL * X.col(i) - lam * X.col(i)));
        LD allow;
        if (P.mode == 0)
            allow = (LD) a.tol * std::max(eps23, std::abs(lam)) + C_RES * nn * u * P.normA * grow;
        else if (P.mode == 1)
        {
            const LD d = std::abs(lam - CLD((LD) P.sigmar));  // 1/|nu|
            allow = (LD) a.tol * P.normAs * std::max(LD(1), eps23 * d) + C_RES * nn * u * (P.normAs / P.smin) * P.normAs * std::max(LD(1), d / P.smin) * grow;
        }
        else
        {
            // OP = (A - sr) P^-1, nu = z / (z^2 + si^2), z = lambda - sr; the rejected root is lambda' = sr + si^2 / z
            const CLD z = lam - CLD((LD) P.sigmar);
            const LD si = (LD) P.sigmai;
            const LD absnu = std::abs(z / (z * z + CLD(si * si)));
            LD inv_other;  // ||(A - lambda' I)^-1||_2
            if (std::abs(z) > 0)
            {
                const CLD lp = CLD((LD) P.sigmar) + CLD(si * si) / z;
                MatXcd M = P.Ad.cast<std::complex<double>>();
                M.diagonal().array() -= std::complex<double>((double) lp.real(), (double) lp.imag());
                const LD sm = smin_of(M);
                inv_other = sm > 0 ? 1 / sm : std::numeric_limits<LD>::infinity();
            }
            else inv_other = std::numeric_limits<LD>::infinity();
            const LD stretch = inv_other * P.normP;
            allow = (LD) a.tol * stretch * std::max(LD(1), eps23 / absnu) + C_RES * nn * u * P.kappaS * P.normOP * stretch / absnu * grow + C_RES * nn * u * P.normA * grow;
        }
        const char* rn = P.mode == 0 ? "residual" : (P.mode == 1 ? "residual-realshift" : "residual-cplxshift");
        if (!within(ctx, std::string(P.clean ? "" : "corpus:") + rn, res, allow)) bad("residual", res, allow, i);
    }
    // distinctness: two returned pairs that coincide although the spectrum of A has a simple eigenvalue there
    if (P.clean)
        for (long i = 0; i < k; i++)
            for (long j = i + 1; j < k; j++)
            {
                const CLD li((LD) evals[i].real(), (LD) evals[i].imag()), lj((LD) evals[j].real(), (LD) evals[j].imag());
                if (std::abs(li - lj) <= 1e-8L * P.normA && std::abs(X.col(i).dot(X.col(j))) >= 1 - 1e-6L)
                {
                    int near = 0;
                    for (int q = 0; q < P.n; q++) if (std::abs(CLD((LD) P.spec[q].real(), (LD) P.spec[q].imag()) - li) <= 1e-6L * P.normA) near++;
                    if (near <= 1) bad("duplicate-pair", (LD) i, (LD) j, i);
                    ctx.count("coinciding_pairs_seen");
                }
            }
}

template <class Solver>
static void run_history(vf::Ctx& ctx, const Problem& P, Solver& es, vw::OpCtl& ctl)
{
    auto& r = ctx.rng;
    const bool thor = ctx.thorough && P.clean;   // corpus cases are the same in both tiers
    const int len = (int) r.range(1, thor ? 8 : 4);
    std::string word;
    bool inited = false, computed_since_init = false, converged_since_init = false;
    const auto tols = TolSet<T>::get();
    const long big = thor ? 1000 : 300;
    const std::vector<long> maxits = {0, 1, 2, 3, 5, 10, big, big, big};
    const char* startkind = "default";
    long restarts_total = 0;
    bool nontrivial = false;
    for (int step = 0; step <= len; step++)
    {
        char op;
        if (!inited) op = r.coin(0.5) ? 'I' : 'V';
        else if (step == len) op = 'C';
        else { const double x = r.uni(); op = x < 0.55 ? 'C' : (x < 0.8 ? 'I' : 'V'); }
        word += op;
        if (op == 'I') { es.init(); startkind = "default"; inited = true; computed_since_init = false; converged_since_init = false; }
        else if (op == 'V')
        {
            VecT v0(P.n);
            const int sk = (P.clean || P.tight) ? 0 : (int) r.range(0, 3);
            if (sk == 0) { for (int i = 0; i < P.n; i++) v0[i] = T(r.gauss()); startkind = "gaussian"; }
            else if (sk == 1)
            {
                // a real eigenvector, or the real part of a complex one (then in a 2-dimensional invariant subspace)
                const int j = (int) r.range(0, P.n - 1);
                for (int i = 0; i < P.n; i++) v0[i] = T(P.evecs(i, j).real());
                startkind = "eigenvector-real-part";
            }
            else if (sk == 2)
            {
                const int d = (int) r.range(1, std::max(1, P.ncv - 2));
                v0.setZero();
                for (int q = 0; q < d; q++)
                {
                    const int j = (int) r.range(0, P.n - 1);
                    const double w1 = r.gauss(), w2 = r.gauss();
                    for (int i = 0; i < P.n; i++) v0[i] += T(P.evecs(i, j).real() * w1 + P.evecs(i, j).imag() * w2);
                }
                startkind = "invariant-subspace";
            }
            else
            {
                int j = 0;
                for (int q = 1; q < P.n; q++) if (std::abs(P.spec[q]) < std::abs(P.spec[j])) j = q;
                for (int i = 0; i < P.n; i++) v0[i] = T(P.evecs(i, j).real());
                startkind = "smallest-modulus-eigenvector";
            }
            if (v0.norm() == 0) v0[0] = T(1);
            try { es.init(v0.data()); }
            catch (const std::invalid_argument&) { ctx.count("init_rejected"); es.init(); startkind = "default"; }
            inited = true; computed_since_init = false; converged_since_init = false;
        }
        else
        {
            ComputeArgs a{r.pick(GEN_SELECT), r.pick(maxits), r.pick(tols), r.pick(GEN_SELECT)};
            if (P.tight) { a.maxit = 1000; a.tol = r.pick(std::vector<T>{T(1e-11), T(1e-12), T(1e-13), T(1e-14)}); }
            const std::string shape = computed_since_init ? "after-compute" : "after-init";
            const long it0 = (long) es.num_iterations();
            ctl.limit = ctl.count + 8 * (4 + 2 * (long) P.ncv * (a.maxit + 2)) + 4 * P.nev;
            long ret = -1;
            bool ok = false;
            try { ret = (long) es.compute(a.sel, a.maxit, a.tol, a.sort); ok = true; }
            catch (const vw::WorkBoundExceeded&) { ctx.inconclusive("work guard hit (see C13)"); ctx.count("compute_exception/work-guard"); return; }
            catch (const std::invalid_argument&) { ctx.count("compute_exception/invalid_argument"); }
            catch (const std::runtime_error&) { ctx.count("compute_exception/runtime_error"); }
            catch (const std::logic_error&) { ctx.count("compute_exception/logic_error"); }
            ctl.limit = -1;
            ctx.count("computes");
            ctx.count("computes/" + shape);
            if (!ok) { computed_since_init = false; inited = false; continue; }
            const long restarts = (long) es.num_iterations() - it0 - 1;
            restarts_total += std::max(0L, restarts);
            // every compute() of the history is judged, also one that continues after an earlier compute() (converged or not) and runs of hundreds of
            // restarts (before fix 26e3e70 those lost orthogonality geometrically and had to be kept out of the exploration)
            if (es.info() == CompInfo::Successful) converged_since_init = true;
            judge(ctx, P, es, std::max(0L, (long) es.num_iterations() - 1), a, shape, word, startkind);
            if (restarts >= 1 && ret >= 1) nontrivial = true;
            computed_since_init = true;
            if (ctx.want_sample && ctx.sample.empty())
            {
                std::string j = pjson(P, word, a, startkind);
                j.pop_back();
                ctx.set_sample(j + "," + vf::J().kv("info", info_name(es.info())).kv("returned", ret).kv("restarts", restarts).kv("operator_applications", ctl.count).str().substr(1));
            }
        }
    }
    ctx.count("restarts", restarts_total);
    ctx.count("operator_applications", ctl.total);
    ctx.count("evals");
    ctx.count(std::string("kind/") + KIND[P.kind]);
    ctx.count(std::string("class/") + vg::GEN_CLASS[P.cls]);
    ctx.count("history_length/" + std::to_string(word.size()));
    if (P.mode == 2) ctx.count(std::string("shift_kind/") + P.shiftkind);
    if (nontrivial)
        ctx.nontriv(std::string(KIND[P.kind]) + "/" + std::to_string(P.cls) + "/" + std::to_string(P.n) + "/" + std::to_string(P.nev) + "/" + std::to_string(P.ncv) + "/" + word + "/" +
                    std::to_string(P.scale) + "/" + std::to_string((double) P.AL(0, 0).real()));
}

static const int GROUP_KINDS[3][2] = {{0, 1}, {2, 3}, {4, 5}};
static long n_explore(const vf::Ctx& ctx) { return ctx.thorough ? 3000L : 640L; }
static long n_corpus1() { return sizeof(T) == 8 ? 140L : 0L; }
static long n_corpus() { return sizeof(T) == 8 ? 140L + 100L : 0L; }   // second part (ids from 140): corpus/scaled/...
long vf_ncases(const vf::Ctx& ctx) { return n_explore(ctx) + n_corpus(); }

static bool is_clean_class(int cls) { return cls == 0 || cls == 1 || cls == 6 || cls == 11; }

void vf_run_case(vf::Ctx& ctx, long idx)
{
    auto& r = ctx.rng;
    Problem P;
    const bool corpus = idx >= n_explore(ctx);
    const long ci = idx - n_explore(ctx);
    P.kind = GROUP_KINDS[C02_GROUP][(corpus ? ci : idx) % 2];
    P.mode = C02_GROUP;
    if (corpus)
    {
        ctx.case_rng("c02_corpus", ci, true);
        P.tight = ci >= n_corpus1();
        P.tag = std::string(P.tight ? "corpus/scaled/" : "corpus/") + KSHORT[P.kind] + "/" + std::to_string(ci);
        ctx.set_tag(P.tag);
    }
    P.clean = !corpus;
    const int nmax = ctx.thorough && !corpus ? (r.coin(0.15) ? 150 : 70) : (P.mode == 2 ? 40 : 50);
    vg::Config c = vg::gen_config(r, corpus && !P.tight ? 3 : 6, nmax);   // tiny problems: corpus and C13 (see c01_sym.cpp)
    P.n = c.n; P.nev = c.nev; P.ncv = c.ncv;
    const int dec = sizeof(T) == 4 ? 4 : 8;
    if (P.clean)
    {
        static const int CLEAN[] = {0, 1, 6, 11};
        P.cls = CLEAN[r.range(0, 3)];
        P.scale = r.coin(0.6) ? 1.0 : std::pow(10.0, (double) r.range(-2, 2));
    }
    else if (P.tight)
    {
        static const int CLEAN[] = {0, 1, 6, 11};
        P.cls = CLEAN[r.range(0, 3)];
        P.scale = std::pow(10.0, (double) (r.coin(0.7) ? -r.range(3, 12) : r.range(3, 8)));
    }
    else
    {
        do
        {
            P.cls = (int) r.range(0, vg::N_GEN_CLASS - 1);
            P.scale = r.coin(0.4) ? 1.0 : std::pow(10.0, (double) r.range(-dec, dec));
        } while (is_clean_class(P.cls) && P.scale >= 1e-2 && P.scale <= 1e2 && r.coin(0.8));
    }
    MatT A = vg::gen_matrix(r, P.n, P.cls, P.scale).cast<T>();
    // the sparse wrappers get genuinely sparse patterns (about 30 % filled, full diagonal) where the class allows it - gaussian and symmetric; a dense pattern
    // never exercises the fill-reducing ordering of the sparse factorizations. Exploration only (the corpus keeps its matrices).
    if (P.clean && (P.kind == 1 || P.kind == 3 || P.kind == 5) && (P.cls == 0 || P.cls == 11) && r.coin(0.7))
    {
        for (int j = 0; j < P.n; j++)
            for (int i = 0; i < j; i++)
            {
                const bool keep_ij = r.coin(0.3), keep_ji = P.cls == 11 ? keep_ij : r.coin(0.3);
                if (!keep_ij) A(i, j) = T(0);
                if (!keep_ji) A(j, i) = T(0);
            }
        ctx.count("sparse_pattern_cases");
    }
    P.AL = A.template cast<CLD>();
    P.Ad = A.template cast<double>();
    {
        Eigen::EigenSolver<MatXd> ref(P.Ad);
        P.spec = ref.eigenvalues();
        P.evecs = ref.eigenvectors();
        Eigen::JacobiSVD<MatXd> svd(P.Ad);
        P.normA = (LD) svd.singularValues()[0];
    }
    if (!(P.normA > 0)) { ctx.count("evals"); ctx.count("skipped_zero_matrix"); return; }
    if (P.mode >= 1)
    {
        // spread of the spectrum and a reference eigenvalue to place the shift by
        double spread = 0;
        for (int q = 0; q < P.n; q++) spread = std::max(spread, std::abs(P.spec[q] - P.spec[0]));
        if (!(spread > 0)) spread = (double) P.normA;
        const int j = (int) r.range(0, P.n - 1);
        const double rel = (P.clean || P.tight) ? (r.coin() ? 0.1 : (r.coin() ? 0.03 : 0.01)) : std::pow(10.0, -(double) r.range(1, sizeof(T) == 4 ? 3 : 6));
        if (P.mode == 1)
        {
            P.sigmar = T(P.spec[j].real() + (r.coin() ? 1 : -1) * rel * spread);
            P.shiftkind = "near-eigenvalue";
            MatXcd M = P.Ad.cast<std::complex<double>>();
            M.diagonal().array() -= std::complex<double>((double) P.sigmar, 0);
            Eigen::JacobiSVD<MatXcd> svd(M);
            P.normAs = (LD) svd.singularValues()[0];
            P.smin = (LD) svd.singularValues()[P.n - 1];
            if (!(P.smin > 1e3L * unit<T>() * P.normAs)) { ctx.count("skipped_shift_on_eigenvalue"); ctx.count("evals"); return; }
        }
        else
        {
            const int sk = (P.clean || P.tight) ? (int) r.range(0, 2) : (int) r.range(0, 3);   // 'above-eigenvalue' makes OP singular for a real eigenvalue: corpus only
            double sr, si;
            if (sk == 0) { sr = P.spec[j].real() + rel * spread; si = std::abs(P.spec[j].imag()) + rel * spread * r.uni(0.5, 2); P.shiftkind = "near-eigenvalue"; }
            else if (sk == 1) { sr = r.uni(-1, 1) * (double) P.normA; si = r.uni(0.05, 1) * (double) P.normA; P.shiftkind = "generic"; }
            else if (sk == 2)
            {
                // the tie |lambda - Re sigma| = |Im sigma| for a real eigenvalue lambda (if A has one): sigma = lambda + d + i d
                int q = -1;
                for (int t = 0; t < P.n; t++) if (P.spec[t].imag() == 0) { q = t; if (r.coin(0.3)) break; }
                const double d = rel * spread * 3;
                if (q >= 0) { sr = P.spec[q].real() + d; si = d; P.shiftkind = "tie-real-eigenvalue"; }
                else { sr = P.spec[j].real() + d; si = d; P.shiftkind = "near-eigenvalue"; }
            }
            else { sr = P.spec[j].real(); si = 0.3 * spread + 0.01 * (double) P.normA; P.shiftkind = "above-eigenvalue"; }
            P.sigmar = T(sr); P.sigmai = T(si);
            if (P.sigmai == T(0)) P.sigmai = T(0.1 * (double) P.normA);
            const std::complex<double> sg((double) P.sigmar, (double) P.sigmai);
            MatXcd S = P.Ad.cast<std::complex<double>>();
            S.diagonal().array() -= sg;
            Eigen::JacobiSVD<MatXcd> svdS(S);
            P.kappaS = (LD) svdS.singularValues()[0] / (LD) svdS.singularValues()[P.n - 1];
            if (!(svdS.singularValues()[P.n - 1] > 1e3 * (double) unit<T>() * svdS.singularValues()[0])) { ctx.count("skipped_shift_on_eigenvalue"); ctx.count("evals"); return; }
            MatXd B = P.Ad;
            B.diagonal().array() -= (double) P.sigmar;
            MatXd Pm = B * B;
            Pm.diagonal().array() += (double) P.sigmai * (double) P.sigmai;
            Eigen::JacobiSVD<MatXd> svdP(Pm);
            P.normP = (LD) svdP.singularValues()[0];
            MatXd OP = B * Pm.inverse();
            Eigen::JacobiSVD<MatXd> svdO(OP);
            P.normOP = (LD) svdO.singularValues()[0];
        }
    }
    vw::OpCtl ctl;
    try
    {
        // storage option of the library's wrappers: RowMajor in every other exploration case (chosen from the case number, no random draw)
        const bool rowmajor = !corpus && ((idx / 2) % 2 == 1);
        ctx.count(rowmajor ? "wrapper_options/RowMajor" : "wrapper_options/default");
        if (rowmajor)
        {
            using MatR = Eigen::Matrix<T, Eigen::Dynamic, Eigen::Dynamic, Eigen::RowMajor>;
            using SpR = Eigen::SparseMatrix<T, Eigen::RowMajor>;
            switch (P.kind)
            {
#if C02_GROUP == 0
                case 0: { MatR Ar = A; vw::Wrap<Spectra::DenseGenMatProd<T, Eigen::RowMajor>> op(&ctl, Ar); Spectra::GenEigsSolver<decltype(op)> es(op, P.nev, P.ncv); run_history(ctx, P, es, ctl); break; }
                case 1: { SpR S = A.sparseView(); vw::Wrap<Spectra::SparseGenMatProd<T, Eigen::RowMajor>> op(&ctl, S); Spectra::GenEigsSolver<decltype(op)> es(op, P.nev, P.ncv); run_history(ctx, P, es, ctl); break; }
#elif C02_GROUP == 1
                case 2: { MatR Ar = A; vw::Wrap<Spectra::DenseGenRealShiftSolve<T, Eigen::RowMajor>> op(&ctl, Ar); Spectra::GenEigsRealShiftSolver<decltype(op)> es(op, P.nev, P.ncv, P.sigmar); run_history(ctx, P, es, ctl); break; }
                case 3: { SpR S = A.sparseView(); vw::Wrap<Spectra::SparseGenRealShiftSolve<T, Eigen::RowMajor>> op(&ctl, S); Spectra::GenEigsRealShiftSolver<decltype(op)> es(op, P.nev, P.ncv, P.sigmar); run_history(ctx, P, es, ctl); break; }
#else
                case 4: { MatR Ar = A; vw::Wrap<Spectra::DenseGenComplexShiftSolve<T, Eigen::RowMajor>> op(&ctl, Ar); Spectra::GenEigsComplexShiftSolver<decltype(op)> es(op, P.nev, P.ncv, P.sigmar, P.sigmai); run_history(ctx, P, es, ctl); break; }
                case 5: { SpR S = A.sparseView(); vw::Wrap<Spectra::SparseGenComplexShiftSolve<T, Eigen::RowMajor>> op(&ctl, S); Spectra::GenEigsComplexShiftSolver<decltype(op)> es(op, P.nev, P.ncv, P.sigmar, P.sigmai); run_history(ctx, P, es, ctl); break; }
#endif
                default: break;
            }
        }
        else
        switch (P.kind)
        {
#if C02_GROUP == 0
            case 0: { vw::Wrap<Spectra::DenseGenMatProd<T>> op(&ctl, A); Spectra::GenEigsSolver<decltype(op)> es(op, P.nev, P.ncv); run_history(ctx, P, es, ctl); break; }
            case 1: { SpT S = A.sparseView(); vw::Wrap<Spectra::SparseGenMatProd<T>> op(&ctl, S); Spectra::GenEigsSolver<decltype(op)> es(op, P.nev, P.ncv); run_history(ctx, P, es, ctl); break; }
#elif C02_GROUP == 1
            case 2: { vw::Wrap<Spectra::DenseGenRealShiftSolve<T>> op(&ctl, A); Spectra::GenEigsRealShiftSolver<decltype(op)> es(op, P.nev, P.ncv, P.sigmar); run_history(ctx, P, es, ctl); break; }
            case 3: { SpT S = A.sparseView(); vw::Wrap<Spectra::SparseGenRealShiftSolve<T>> op(&ctl, S); Spectra::GenEigsRealShiftSolver<decltype(op)> es(op, P.nev, P.ncv, P.sigmar); run_history(ctx, P, es, ctl); break; }
#else
            case 4: { vw::Wrap<Spectra::DenseGenComplexShiftSolve<T>> op(&ctl, A); Spectra::GenEigsComplexShiftSolver<decltype(op)> es(op, P.nev, P.ncv, P.sigmar, P.sigmai); run_history(ctx, P, es, ctl); break; }
            case 5: { SpT S = A.sparseView(); vw::Wrap<Spectra::SparseGenComplexShiftSolve<T>> op(&ctl, S); Spectra::GenEigsComplexShiftSolver<decltype(op)> es(op, P.nev, P.ncv, P.sigmar, P.sigmai); run_history(ctx, P, es, ctl); break; }
#endif
            default: break;
        }
    }
    catch (const std::invalid_argument& e)
    {
        ctx.inconclusive(std::string("operator refused input: ") + e.what());
        ctx.count("evals");
    }
    if (!ctl.bad.empty())
        ctx.violation((P.tag.empty() ? std::string(KIND[P.kind]) : P.tag) + "/operator-buffers", vf::J().kv("what", ctl.bad).kv("n", P.n).kv("ncv", P.ncv).str());
}
