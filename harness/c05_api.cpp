// C05 - accessors, counts, ordering and status are mutually consistent, for every solver of the Arnoldi/Lanczos family and every
// interleaving of init / compute / accessor calls. One solver group per build (-DZOO_GROUP=0|1|2).
#define VF_MAIN
#include "common/fachook.hpp"
#include "common/framework.hpp"
#include "common/zoo.hpp"

using T = double;
using namespace vz;
using namespace vo;
const char* vf_driver() { return "c05_api"; }

template <class Fac>
static void run_case(vf::Ctx& ctx, const Fac& fac, bool hostile)
{
    using Scalar = typename Fac::Scalar;
    using Vec = Eigen::Matrix<Scalar, Eigen::Dynamic, 1>;
    auto& r = ctx.rng;
    const auto& d = fac.d;
    const LD u = unit<T>();
    std::string word;
    auto key = [&](const char* what) { return std::string(FAMILY[d.family]) + "/" + what; };
    struct LastArgs { SortRule sel, sort; long maxit; T tol; } la{SortRule::LargestMagn, SortRule::LargestMagn, 0, 0};
    auto info = [&]() {
        return vf::J().kv("solver", FAMILY[d.family]).kv("class", d.classname).kv("domain", hostile ? "hostile" : "clean").kv("n", d.n).kv("nev", d.nev).kv("ncv", d.ncv)
            .kv("scale", d.scale).kv("sigma", (double) d.sigma).kv("history", word).kv("selection", rule_name(la.sel)).kv("maxit", la.maxit).kv("tol", (double) la.tol).kv("sorting", rule_name(la.sort));
    };
    std::unique_ptr<typename Fac::Ops> ops;
    std::unique_ptr<typename Fac::Solver> es;
    try { ops = fac.make_ops(); es = fac.make_solver(*ops); }
    catch (const std::invalid_argument& e) { ctx.inconclusive(std::string("operator refused input: ") + e.what()); ctx.count("evals"); return; }
    vw::OpCtl& ctl = ops->main_ctl();
    // dense reference of the pencil for the pairing test
    MatCLD AL, BL;
    const bool generalized = family_is_generalized(d.family);
    if (d.family == 2) AL = d.AH.template cast<CLD>(); else AL = d.A.template cast<CLD>();
    if (generalized) BL = d.B.template cast<CLD>();

    auto check_not_computed = [&](const char* when) {
        ctx.count("pre_compute_checks");
        if (es->info() != CompInfo::NotComputed) ctx.violation(key("info-not-NotComputed-before-compute"), info().kv("when", when).kv("info", info_name(es->info())).str());
        if (es->eigenvalues().size() != 0 || es->eigenvectors().cols() != 0 || es->eigenvectors(3).cols() != 0)
            ctx.violation(key("accessors-not-empty-before-compute"), info().kv("when", when).str());
    };
    // at EVERY point of a history (also between a new init() and the next compute(), after a compute() or an init() that threw, after reads) the accessors describe
    // one and the same set of pairs: sizes agree, eigenvectors(m) has min(m, count) columns, count <= nev
    auto check_consistent = [&](const char* when) {
        ctx.count("anytime_consistency_checks");
        const long k = (long) es->eigenvalues().size(), c = (long) es->eigenvectors().cols();
        if (k != c || k > d.nev) { ctx.violation(key("accessors-disagree-between-calls"), info().kv("when", when).kv("eigenvalues", k).kv("eigenvector_cols", c).kv("info", info_name(es->info())).str()); return; }
        for (long m = 0; m <= d.nev + 2; m++)
            if ((long) es->eigenvectors(m).cols() != std::min(m, k))
            { ctx.violation(key("accessors-disagree-between-calls"), info().kv("when", when).kv("nvec", m).kv("cols", (long) es->eigenvectors(m).cols()).kv("eigenvalues", k).str()); return; }
        if (k > 0) ctx.count("anytime_consistency_checks_with_pairs");
    };
    check_not_computed("after construction");
    bool inited = false, computed = false;
    const std::vector<T> tols = {1e-12, 1e-10, 1e-8, 1e-6, 1e-3};
    const std::vector<long> maxits = {0, 0, 1, 1, 2, 3, 5, 10, 300, 300, 300};
    const int len = (int) r.range(2, ctx.thorough ? 7 : 5);
    bool nontrivial = false;
    for (int step = 0; step < len; step++)
    {
        const double x = r.uni();
        char op = !inited ? (r.coin() ? 'I' : 'V') : (step == len - 1 || x < 0.5 ? 'C' : (x < 0.65 ? 'I' : (x < 0.8 ? 'V' : 'r')));
        word += op;
        if (op == 'I' || op == 'V')
        {
            ctl.reset();
            try
            {
                if (op == 'I') es->init();
                else
                {
                    Vec v(d.n);
                    for (int i = 0; i < d.n; i++) v[i] = Scalar(T(r.gauss()));
                    es->init(v.data());
                }
            }
            catch (const std::exception&) { word += "!"; inited = false; check_consistent("after an init() that threw"); continue; }   // (an operator failing inside init(): counters are judged again after the next complete init())
            inited = true;
            if (!computed) check_not_computed("after init");
            else { check_consistent("after init() following a compute()"); ctx.count("init_after_compute_checks"); }
            // init() itself applies the operator: the counter must agree right away
            if ((long) es->num_operations() != ctl.iteration_count())
                ctx.violation(key("num_operations-after-init"), info().kv("reported", (long) es->num_operations()).kv("observed", ctl.iteration_count()).str());
        }
        else if (op == 'r')
        {
            (void) es->eigenvalues(); (void) es->eigenvectors(); (void) es->eigenvectors(1); (void) es->info(); (void) es->num_iterations();
            check_consistent("accessor reads");
        }
        else
        {
            la = LastArgs{r.pick(fac.select_rules()), r.pick(fac.sort_rules()), r.pick(maxits), r.pick(tols)};
            vfh::sink().reset_counts();
            ctl.limit = ctl.count + 8 * (4 + 2 * (long) d.ncv * (la.maxit + 2)) + 4 * d.nev;
            long ret = -1;
            try { ret = (long) es->compute(la.sel, la.maxit, la.tol, la.sort); }
            catch (const vw::WorkBoundExceeded&) { ctx.inconclusive("work guard hit (see C13)"); break; }
            catch (const std::exception&) { ctl.limit = -1; word += "!"; inited = false; ctx.count("compute_exceptions"); check_consistent("after a compute() that threw"); continue; }
            ctl.limit = -1;
            computed = true;
            ctx.count("computes");
            const long restarts = vfh::sink().compress;
            ctx.count("restarts_observed", restarts);
            if (restarts >= 1 && ret >= 1) nontrivial = true;
            auto ev = es->eigenvalues();
            auto U = es->eigenvectors();
            const long k = (long) ev.size();
            // 1. counts
            if (ret != k || ret != (long) U.cols() || ret > d.nev || ret < 0)
                ctx.violation(key("count-mismatch"), info().kv("returned", ret).kv("eigenvalues", k).kv("eigenvector_cols", (long) U.cols()).str());
            if (k > 0 && U.rows() != d.n) ctx.violation(key("eigenvector-rows"), info().kv("rows", (long) U.rows()).str());
            // 2. status
            const CompInfo want = (ret == d.nev) ? CompInfo::Successful : CompInfo::NotConverging;
            if (es->info() != want) ctx.violation(key("info-inconsistent-with-count"), info().kv("returned", ret).kv("info", info_name(es->info())).str());
            ctx.count(std::string("outcome/") + info_name(es->info()));
            if (ret > 0 && ret < d.nev) ctx.count("partly_converged_runs");
            // 3. eigenvectors(m)
            for (long m = 0; m <= d.nev + 2; m++)
            {
                auto Um = es->eigenvectors(m);
                const long wantc = std::min(m, k);
                ctx.count("nvec_calls");
                if ((long) Um.cols() != wantc) { ctx.violation(key("eigenvectors(nvec)-column-count"), info().kv("nvec", m).kv("cols", (long) Um.cols()).kv("want", wantc).str()); continue; }
                if (wantc > 0 && Um.rows() == U.rows())
                {
                    const LD diff = (LD) (Um - U.leftCols(wantc)).cwiseAbs().maxCoeff();
                    const LD scale = std::max<LD>(1, (LD) U.leftCols(wantc).cwiseAbs().maxCoeff());
                    if (!(diff <= 100 * d.ncv * u * scale) && all_finite(U))
                        ctx.violation(key("eigenvectors(nvec)-not-leading-columns"), info().kv("nvec", m).kv("max_abs_diff", diff).str());
                }
            }
            // 4. order named by the sorting argument
            bool finite = true;
            for (long i = 0; i < k; i++) finite = finite && std::isfinite((double) std::abs(ev[i]));
            if (finite)
                for (long i = 0; i + 1 < k; i++)
                {
                    bool desc;
                    const LD a = sort_key(la.sort, CLD(ev[i]), desc), b = sort_key(la.sort, CLD(ev[i + 1]), desc);
                    const LD slack = 8 * u * std::max(std::abs(a), std::abs(b));   // the solver forms its keys in working precision: ties may differ in the last bits
                    if (desc ? (a < b - slack) : (a > b + slack)) { ctx.violation(key("not-in-sorting-order"), info().kv("position", i).kv("key_i", a).kv("key_next", b).str()); break; }
                }
            // 5. pairing: no OTHER returned value fits column i ten times better than value i does
            // (clean domain only: for defective / ill-conditioned hostile input the returned values are all perturbations of one eigenvalue and 'which value fits' is meaningless)
            if (!hostile && finite && k >= 2 && all_finite(U))
            {
                const MatCLD X = U.template cast<CLD>();
                const MatCLD AX = AL * X;
                const MatCLD BX = generalized ? MatCLD(BL * X) : X;
                const LD nA = fnorm(AL);
                for (long i = 0; i < k; i++)
                {
                    const LD rii = fnorm(VecCLD(AX.col(i) - CLD(ev[i]) * BX.col(i)));
                    for (long j = 0; j < k; j++)
                    {
                        if (j == i) continue;
                        const LD rij = fnorm(VecCLD(AX.col(i) - CLD(ev[j]) * BX.col(i)));
                        // (only when value i itself does not fit its column to the requested accuracy: two returned values that approximate the same eigenvalue to
                        //  different accuracy both 'belong' to the column)
                        if (rij < 0.1L * rii && rii > 1e4L * d.n * u * nA && rii > 100 * (LD) la.tol * nA)
                        {
                            ctx.violation(key("value-does-not-belong-to-its-column"), info().kv("column", i).kv("own_value_residual", rii).kv("other_value", j).kv("other_value_residual", rij).str());
                            i = k; break;
                        }
                    }
                }
                ctx.count("pairing_checks");
            }
            // 6. operator applications
            if ((long) es->num_operations() != ctl.iteration_count())
                ctx.violation(key("num_operations"), info().kv("reported", (long) es->num_operations()).kv("observed_iteration_applications", ctl.iteration_count()).kv("observed_total", ctl.count).str());
            ctx.count("operator_applications", ctl.count);
            // 7. at most maxit restarts in this compute()
            if (restarts > la.maxit) ctx.violation(key("more-than-maxit-restarts"), info().kv("restarts", restarts).str());
            if (ctx.want_sample && ctx.sample.empty())
                ctx.set_sample(info().kv("returned", ret).kv("info", info_name(es->info())).kv("restarts", restarts).kv("num_operations", (long) es->num_operations()).str());
        }
    }
    ctx.count("evals");
    ctx.count(std::string("family/") + FSHORT[d.family]);
    ctx.count("history_length/" + std::to_string(word.size()));
    if (nontrivial) ctx.nontriv(std::string(FSHORT[d.family]) + "/" + std::to_string(d.n) + "/" + std::to_string(d.nev) + "/" + std::to_string(d.ncv) + "/" + word + "/" + std::to_string((double) d.scale) + "/" + std::to_string(ctl.total));
}

long vf_ncases(const vf::Ctx& ctx) { return ctx.thorough ? 30000 : 1300; }

void vf_run_case(vf::Ctx& ctx, long idx)
{
    const auto fams = compiled_families();
    const int f = fams[(size_t) (idx % (long) fams.size())];
    const bool hostile = ctx.rng.coin(0.35);
    Data<T> d = make_data<T>(ctx.rng, f, ctx.thorough ? 60 : 40, hostile);
    with_family<T>(d, [&](auto fac) { run_case(ctx, fac, hostile); });
}
