// Extended-precision helpers shared by the kernel drivers.
#pragma once
#include <Eigen/Dense>
#include <complex>
#include <limits>
#include <string>
#include "framework.hpp"

namespace vo {
using LD = long double;
using MatLD = Eigen::Matrix<LD, Eigen::Dynamic, Eigen::Dynamic>;
using VecLD = Eigen::Matrix<LD, Eigen::Dynamic, 1>;
using CLD = std::complex<LD>;
using MatCLD = Eigen::Matrix<CLD, Eigen::Dynamic, Eigen::Dynamic>;
using VecCLD = Eigen::Matrix<CLD, Eigen::Dynamic, 1>;

template <class T> struct Name;
template <> struct Name<float> { static const char* s() { return "float"; } };
template <> struct Name<double> { static const char* s() { return "double"; } };
template <> struct Name<long double> { static const char* s() { return "long double"; } };
template <> struct Name<std::complex<float>> { static const char* s() { return "complex<float>"; } };
template <> struct Name<std::complex<double>> { static const char* s() { return "complex<double>"; } };
template <> struct Name<std::complex<long double>> { static const char* s() { return "complex<long double>"; } };

template <class T> LD unit() { return (LD) std::numeric_limits<typename Eigen::NumTraits<T>::Real>::epsilon(); }

template <class M> MatLD toLD(const M& m) { return m.template cast<LD>(); }
template <class M> MatCLD toCLD(const M& m) { return m.template cast<CLD>(); }

// overflow-safe Frobenius norm
template <class M> LD fnorm(const M& m)
{
    if (m.size() == 0) return 0;
    LD mx = m.cwiseAbs().maxCoeff();
    if (!(mx > 0) || !(mx == mx)) return mx;
    return mx * (m / mx).norm();
}
template <class M> bool all_finite(const M& m)
{
    for (Eigen::Index j = 0; j < m.cols(); j++)
        for (Eigen::Index i = 0; i < m.rows(); i++)
        {
            auto a = std::abs(m(i, j));
            if (!(a == a) || a > std::numeric_limits<decltype(a)>::max()) return false;
        }
    return true;
}
inline LD orth_err(const MatLD& Q)
{
    MatLD G = Q.transpose() * Q;
    G.diagonal().array() -= LD(1);
    return G.cwiseAbs().maxCoeff();
}
inline LD orth_err(const MatCLD& Q)
{
    MatCLD G = Q.adjoint() * Q;
    G.diagonal().array() -= CLD(1);
    return G.cwiseAbs().maxCoeff();
}

// compare `obs` with `allow`; record worst ratio; report a violation when exceeded (NaN counts as exceeded)
inline bool within(vf::Ctx& ctx, const std::string& ratio_name, LD obs, LD allow)
{
    LD ratio = (allow > 0) ? obs / allow : (obs == 0 ? LD(0) : std::numeric_limits<LD>::infinity());
    if (!(obs == obs)) ratio = std::numeric_limits<LD>::infinity();
    ctx.maxratio(ratio_name, ratio);
    static const bool trace = std::getenv("VF_TRACE") != nullptr;
    if (trace && ratio > LD(0.2)) fprintf(stderr, "TRACE case %ld %s observed %.4Lg allowed %.4Lg ratio %.3Lg\n", ctx.idx, ratio_name.c_str(), obs, allow, ratio);
    return ratio <= LD(1);
}

}  // namespace vo
