// Online checker of the Krylov factorization invariant, fed by the guarded hook (fachook.hpp).
#pragma once
#include "fachook.hpp"
#include "framework.hpp"
#include "oracle.hpp"
#include <vector>
#include <string>

namespace vm {
using namespace vo;

struct Finding { std::string what; LD observed, allowed; long event; long k; std::string point; };

struct Monitor
{
    // reference data of the running case (set by the driver)
    MatCLD OP;            // the iterated operator, dense, extended precision
    MatCLD B;             // inner-product matrix (empty = identity)
    LD normOP = 1;        // ||OP||_F
    LD kappaB = 1;        // cond(B) (1 for identity)
    LD opnoise = 1;       // accuracy of one operator application in units of u*||OP|| (condition of the factorized matrix for shift-and-invert)
    LD u = 0;             // unit roundoff of the scalar type under test
    bool lanczos = false;
    LD C = 200;           // rounding allowance constant
    // state
    long events = 0, n_init = 0, n_extend = 0, n_compress = 0, n_breakdown = 0;
    std::vector<long> breakdown_cols;   // columns started by expand_basis since the last extend event
    std::vector<Finding> findings;
    std::map<std::string, LD> worst;

    void reset_state() { events = n_init = n_extend = n_compress = n_breakdown = 0; breakdown_cols.clear(); findings.clear(); }

    LD ratio(const char* name, LD obs, LD allow, const vfh::View& v)
    {
        LD r = allow > 0 ? obs / allow : (obs == 0 ? LD(0) : std::numeric_limits<LD>::infinity());
        if (!(obs == obs)) r = std::numeric_limits<LD>::infinity();
        auto it = worst.find(name);
        if (it == worst.end() || r > it->second) worst[name] = r;
        if (!(r <= 1)) findings.push_back(Finding{name, obs, allow, events, (long) v.k, v.point});
        return r;
    }

    void on_event(const vfh::View& v)
    {
        events++;
        const std::string pt = v.point;
        const long k = (long) v.k;
        // rounding adds up over the events like a random walk (both classes test the new residual against the basis at every step since fix 26e3e70;
        // before it, Arnoldi skipped the test when ||f|| > 0.717||h|| and V'V - I grew geometrically over the restarts)
        const LD grow = std::sqrt((LD) (1 + (lanczos ? events : n_compress)));
        const LD kk = std::max<long>(k, 10);
        if (pt == "breakdown" || pt == "breakdown-unresolved")
        {
            n_breakdown++;
            // k = number of columns of V the new direction f was orthogonalised against; f must be B-orthogonal to them
            breakdown_cols.push_back(k);
            if (k > 0)
            {
                const MatCLD Vk = v.V.leftCols(k);
                const VecCLD Bf = B.size() ? VecCLD(B * v.f) : v.f;
                const LD fn = std::sqrt(std::abs(v.f.dot(Bf)));
                const LD err = (Vk.adjoint() * Bf).cwiseAbs().maxCoeff();
                ratio("breakdown: V'Bf", err, C * kk * u * kappaB * std::max(fn, LD(1e-300L)), v);
            }
            return;
        }
        if (pt == "init") n_init++;
        else if (pt == "extend") n_extend++;
        else if (pt == "compress") n_compress++;
        if (k < 1 || k > v.m) { findings.push_back(Finding{"advertised dimension out of range", (LD) k, (LD) v.m, events, k, pt}); return; }
        const MatCLD Vk = v.V.leftCols(k);
        const MatCLD Hk = v.H.topLeftCorner(k, k);
        if (!all_finite(Vk) || !all_finite(Hk) || !all_finite(v.f)) { findings.push_back(Finding{"non-finite factorization", 0, 0, events, k, pt}); return; }
        // A V = V H + f e_k'
        MatCLD R = OP * Vk - Vk * Hk;
        R.col(k - 1) -= v.f;
        const LD scale = normOP > 0 ? normOP : LD(1e-300L);
        ratio("AV=VH+fe'", fnorm(R), C * kk * u * scale * opnoise * kappaB * grow, v);
        // V'BV = I, V'Bf = 0, ||f||_B = beta
        const MatCLD BV = B.size() ? MatCLD(B * Vk) : Vk;
        MatCLD G = Vk.adjoint() * BV;
        G.diagonal().array() -= CLD(1);
        ratio("V'BV=I", G.cwiseAbs().maxCoeff(), C * kk * u * kappaB * grow, v);
        const VecCLD Bf = B.size() ? VecCLD(B * v.f) : v.f;
        ratio("V'Bf=0", (Vk.adjoint() * Bf).cwiseAbs().maxCoeff(), C * kk * u * scale * opnoise * kappaB * grow, v);
        const LD fn = std::sqrt(std::abs(v.f.dot(Bf)));
        ratio("||f||_B=beta", std::abs(fn - v.beta), C * kk * u * scale * kappaB, v);
        // structure of H_k
        LD below = 0, asym = 0, imag = 0, band = 0;
        for (long j = 0; j < k; j++)
            for (long i = 0; i < k; i++)
            {
                const CLD h = Hk(i, j);
                if (i > j + 1) below = std::max(below, std::abs(h));
                if (lanczos)
                {
                    imag = std::max(imag, std::abs(h.imag()));
                    if (j > i + 1) band = std::max(band, std::abs(h));
                    asym = std::max(asym, std::abs(h - std::conj(Hk(j, i))));
                }
            }
        if (lanczos)
        {
            // real symmetric tridiagonal: exact zeros outside the band; symmetric and real to rounding level
            // (a complex Hermitian H(i,i) = <v, OP v> carries a rounding-level imaginary part, the library consumes H.real())
            if (below != 0 || band != 0)
                findings.push_back(Finding{"H has entries outside the tridiagonal band", std::max(below, band), 0, events, k, pt});
            ratio("H symmetric", asym, C * kk * u * scale * opnoise * grow, v);
            ratio("H real", imag, C * kk * u * scale * opnoise * grow, v);
        }
        else
            ratio("H Hessenberg", below, C * kk * u * scale * opnoise * grow, v);   // the double-shift sweep leaves rounding residue below the subdiagonal
        if (pt == "extend")
        {
            // a column started by expand_basis is decoupled from the previous one: subdiagonal entry zero up to the re-orthogonalisation correction
            for (long c : breakdown_cols)
                if (c >= 1 && c < k) ratio("restarted column decoupled", std::abs(v.H(c, c - 1)), C * kk * u * scale * opnoise * kappaB * grow, v);
            breakdown_cols.clear();
        }
    }

    void install() { vfh::sink().cb = [this](const vfh::View& v) { this->on_event(v); }; }
    static void uninstall() { vfh::sink().cb = nullptr; }
};

}  // namespace vm
