// Deterministic input generators (functions of the case RNG only).
#pragma once
#include <Eigen/Dense>
#include <Eigen/Sparse>
#include <complex>
#include <vector>
#include <string>
#include <algorithm>
#include "framework.hpp"

namespace vg {
using Eigen::Index;
using MatD = Eigen::MatrixXd;
using VecD = Eigen::VectorXd;
using MatCD = Eigen::MatrixXcd;

inline MatD rand_gauss(vf::Rng& r, int m, int n)
{
    MatD G(m, n);
    for (int j = 0; j < n; j++) for (int i = 0; i < m; i++) G(i, j) = r.gauss();
    return G;
}
inline MatD rand_orth(vf::Rng& r, int n)
{
    Eigen::HouseholderQR<MatD> qr(rand_gauss(r, n, n));
    MatD Q = qr.householderQ();
    return Q;
}
inline MatCD rand_unitary(vf::Rng& r, int n)
{
    MatCD G(n, n);
    for (int j = 0; j < n; j++) for (int i = 0; i < n; i++) G(i, j) = std::complex<double>(r.gauss(), r.gauss());
    Eigen::HouseholderQR<MatCD> qr(G);
    MatCD Q = qr.householderQ();
    return Q;
}

// ------------------------------------------------------------------ spectra
static const char* SYM_CLASS[] = {"generic", "clustered", "repeated", "graded", "low-rank", "block-diagonal", "definite", "banded",
                                  "diagonal", "multiple-of-identity", "laplacian-2d", "arrow"};
static const int N_SYM_CLASS = 12;

// prescribed real spectrum for the class (unit scale)
inline VecD spectrum(vf::Rng& r, int n, int cls)
{
    VecD d(n);
    switch (cls)
    {
        case 1:  // clustered: few clusters, relative gaps 1e-3 .. 1e-9 inside
        {
            const int nc = (int) r.range(2, 4);
            std::vector<double> centre(nc);
            for (auto& c : centre) c = r.uni(-1, 1);
            for (int i = 0; i < n; i++) d[i] = centre[i % nc] * (1.0 + (i / nc) * std::pow(10.0, -(double) r.range(3, 9)));
            break;
        }
        case 2:  // exactly repeated eigenvalues
        {
            const int nd = std::max(2, n / (int) r.range(2, 4));
            std::vector<double> vals(nd);
            for (auto& v : vals) v = (double) r.range(-8, 8) / 4.0;
            for (int i = 0; i < n; i++) d[i] = vals[(size_t) r.range(0, nd - 1)];
            break;
        }
        case 3:  // graded over up to 16 decades
        {
            const double dec = r.uni(4, 16);
            for (int i = 0; i < n; i++) d[i] = (r.coin(0.7) ? 1 : -1) * std::pow(10.0, -dec * i / std::max(1, n - 1));
            break;
        }
        case 4:  // low rank
        {
            d.setZero();
            const int rk = std::min(n, (int) (r.coin(0.5) ? r.range(1, 3) : std::max(1, n / 4)));
            for (int i = 0; i < rk; i++) d[i] = r.uni(0.2, 1.0) * (r.coin() ? 1 : -1);
            break;
        }
        case 6:  // positive definite
            for (int i = 0; i < n; i++) d[i] = r.uni(0.05, 1.0);
            break;
        default:
            for (int i = 0; i < n; i++) d[i] = r.uni(-1, 1);
    }
    return d;
}

// exactly symmetric dense matrix of the class; `scale` multiplies everything
inline MatD sym_matrix(vf::Rng& r, int n, int cls, double scale)
{
    MatD A;
    switch (cls)
    {
        case 5:  // block diagonal: a small invariant block, not mixed with the rest
        {
            const int b = std::max(1, std::min(n - 1, (int) r.range(1, 4)));
            A = MatD::Zero(n, n);
            MatD Q1 = rand_orth(r, b), Q2 = rand_orth(r, n - b);
            A.topLeftCorner(b, b) = Q1 * spectrum(r, b, 0).asDiagonal() * Q1.transpose();
            A.bottomRightCorner(n - b, n - b) = Q2 * spectrum(r, n - b, 0).asDiagonal() * Q2.transpose();
            break;
        }
        case 7:  // banded
        {
            const int bw = (int) r.range(1, 3);
            A = MatD::Zero(n, n);
            for (int j = 0; j < n; j++) for (int i = j; i < std::min(n, j + bw + 1); i++) A(i, j) = r.gauss();
            break;
        }
        case 8:
            A = MatD::Zero(n, n);
            for (int i = 0; i < n; i++) A(i, i) = r.coin(0.3) ? (double) r.range(-3, 3) : r.gauss();
            break;
        case 9:
            A = MatD::Identity(n, n) * (r.coin(0.5) ? 1.0 : r.uni(-2, 2));
            break;
        case 10:  // 2-D Laplacian on a p x q grid padded with a path
        {
            A = MatD::Zero(n, n);
            const int p = std::max(1, (int) std::sqrt((double) n));
            for (int i = 0; i < n; i++)
            {
                A(i, i) = 4;
                if (i + 1 < n && (i + 1) % p != 0) A(i + 1, i) = -1;
                if (i + p < n) A(i + p, i) = -1;
            }
            break;
        }
        case 11:
            A = MatD::Zero(n, n);
            for (int i = 0; i < n; i++) A(i, i) = r.gauss();
            for (int i = 1; i < n; i++) A(i, 0) = r.gauss();
            break;
        default:
        {
            MatD Q = rand_orth(r, n);
            A = Q * spectrum(r, n, cls).asDiagonal() * Q.transpose();
        }
    }
    A *= scale;
    // exact symmetry from the lower triangle
    for (int j = 0; j < n; j++) for (int i = 0; i < j; i++) A(i, j) = A(j, i);
    return A;
}

// complex Hermitian with the same spectra
inline MatCD herm_matrix(vf::Rng& r, int n, int cls, double scale)
{
    MatCD A;
    if (cls == 5 || cls == 7 || cls == 8 || cls == 9 || cls == 10 || cls == 11)
    {
        MatD S = sym_matrix(r, n, cls, 1.0);
        A = S.cast<std::complex<double>>();
        // add a Hermitian imaginary part with the same pattern
        for (int j = 0; j < n; j++)
            for (int i = j + 1; i < n; i++)
                if (S(i, j) != 0.0) A(i, j) += std::complex<double>(0, r.gauss());
    }
    else
    {
        MatCD Q = rand_unitary(r, n);
        A = Q * spectrum(r, n, cls).cast<std::complex<double>>().asDiagonal() * Q.adjoint();
    }
    A *= scale;
    for (int j = 0; j < n; j++)
    {
        A(j, j) = std::complex<double>(A(j, j).real(), 0.0);
        for (int i = 0; i < j; i++) A(i, j) = std::conj(A(j, i));
    }
    return A;
}

// ------------------------------------------------------------------ general real matrices
static const char* GEN_CLASS[] = {"gaussian", "normal-prescribed", "skew-symmetric", "orthogonal", "permutation", "triangular", "nonnormal-prescribed",
                                  "companion", "low-rank", "block-diagonal", "few-distinct", "symmetric", "nilpotent-shift", "identity-like"};
static const int N_GEN_CLASS = 14;

// real block diagonal D with 1x1 and 2x2 rotation-scaling blocks
inline MatD real_block_diag(vf::Rng& r, int n, double frac_complex)
{
    MatD D = MatD::Zero(n, n);
    int i = 0;
    while (i < n)
    {
        if (i + 1 < n && r.coin(frac_complex))
        {
            const double re = r.uni(-1, 1), im = r.uni(0.05, 1);
            D(i, i) = re; D(i + 1, i + 1) = re; D(i, i + 1) = im; D(i + 1, i) = -im;
            i += 2;
        }
        else { D(i, i) = r.uni(-1, 1); i++; }
    }
    return D;
}

inline MatD gen_matrix(vf::Rng& r, int n, int cls, double scale)
{
    MatD A;
    switch (cls)
    {
        case 1: { MatD Q = rand_orth(r, n); A = Q * real_block_diag(r, n, 0.5) * Q.transpose(); break; }
        case 2: { MatD G = rand_gauss(r, n, n); A = G - G.transpose(); break; }
        case 3: A = rand_orth(r, n); break;
        case 4:
        {
            std::vector<int> p(n);
            for (int i = 0; i < n; i++) p[i] = i;
            for (int i = n - 1; i > 0; i--) std::swap(p[i], p[(size_t) r.range(0, i)]);
            A = MatD::Zero(n, n);
            for (int i = 0; i < n; i++) A(p[i], i) = 1;
            break;
        }
        case 5:
            A = MatD::Zero(n, n);
            for (int j = 0; j < n; j++) for (int i = 0; i <= j; i++) A(i, j) = (i == j) ? r.uni(-1, 1) : 0.3 * r.gauss();
            break;
        case 6:
        {
            // S D S^-1 with cond(S) <= 1e3
            MatD U = rand_orth(r, n), V = rand_orth(r, n);
            VecD s(n);
            const double lc = r.uni(0, 3);
            for (int i = 0; i < n; i++) s[i] = std::pow(10.0, -lc * i / std::max(1, n - 1));
            MatD S = U * s.asDiagonal() * V.transpose();
            MatD Si = V * s.cwiseInverse().asDiagonal() * U.transpose();
            A = S * real_block_diag(r, n, 0.4) * Si;
            break;
        }
        case 7:
            A = MatD::Zero(n, n);
            for (int i = 0; i + 1 < n; i++) A(i + 1, i) = 1;
            for (int i = 0; i < n; i++) A(i, n - 1) = (double) r.range(-2, 2) / 2.0;
            if (A(0, n - 1) == 0) A(0, n - 1) = 0.5;
            break;
        case 8:
        {
            const int rk = std::min(n, (int) (r.coin(0.5) ? 1 : 3));
            A = rand_gauss(r, n, rk) * rand_gauss(r, rk, n) / std::sqrt((double) n);
            break;
        }
        case 9:
        {
            const int b = std::max(2, std::min(n - 2, (int) r.range(2, 4)));
            A = MatD::Zero(n, n);
            A.topLeftCorner(b, b) = rand_gauss(r, b, b);
            A.bottomRightCorner(n - b, n - b) = rand_gauss(r, n - b, n - b) / std::sqrt((double) (n - b));
            break;
        }
        case 10:
        {
            // few distinct eigenvalues (diagonalisable)
            MatD Q = rand_orth(r, n);
            VecD d(n);
            const int k = (int) r.range(2, 4);
            for (int i = 0; i < n; i++) d[i] = 0.25 * (double) (1 + (i % k)) * ((i % k) % 2 ? -1 : 1);
            A = Q * d.asDiagonal() * Q.transpose();
            if (r.coin()) { MatD N = 0.05 * rand_gauss(r, n, n); MatD S = MatD::Identity(n, n) + N; A = S * A * S.inverse(); }
            break;
        }
        case 11: A = sym_matrix(r, n, 0, 1.0); break;
        case 12:
            A = MatD::Zero(n, n);
            for (int i = 0; i + 1 < n; i++) A(i, i + 1) = 1;  // nilpotent shift
            break;
        case 13:
            A = MatD::Identity(n, n) * (r.coin() ? 1.0 : -0.5);
            if (r.coin()) A(0, n - 1) = 1e-3;
            break;
        default: A = rand_gauss(r, n, n) / std::sqrt((double) n);
    }
    return A * scale;
}

// ------------------------------------------------------------------ configurations
struct Config { int n, nev, ncv; };

// legal (n, nev, ncv) for the symmetric family: 1 <= nev <= n-1, nev < ncv <= n
inline Config sym_config(vf::Rng& r, int nmin, int nmax)
{
    Config c;
    c.n = (int) r.range(std::max(2, nmin), nmax);
    c.nev = (int) (r.coin(0.7) ? r.range(1, std::max(1, std::min(c.n - 1, 6))) : r.range(1, c.n - 1));
    const int k = (int) r.range(0, 9);
    if (k == 0) c.ncv = c.nev + 1;
    else if (k == 1) c.ncv = c.n;
    else if (k <= 5) c.ncv = std::min(c.n, std::max(c.nev + 1, 2 * c.nev + 1 + (int) r.range(0, 10)));
    else c.ncv = (int) r.range(c.nev + 1, c.n);
    return c;
}
// general family: 1 <= nev <= n-2, nev+2 <= ncv <= n
inline Config gen_config(vf::Rng& r, int nmin, int nmax)
{
    Config c;
    c.n = (int) r.range(std::max(3, nmin), nmax);
    c.nev = (int) (r.coin(0.7) ? r.range(1, std::max(1, std::min(c.n - 2, 6))) : r.range(1, c.n - 2));
    const int k = (int) r.range(0, 9);
    if (k == 0) c.ncv = c.nev + 2;
    else if (k == 1) c.ncv = c.n;
    else if (k <= 5) c.ncv = std::min(c.n, std::max(c.nev + 2, 2 * c.nev + 1 + (int) r.range(0, 10)));
    else c.ncv = (int) r.range(c.nev + 2, c.n);
    return c;
}

}  // namespace vg
