// Sink of the guarded observation macro in Arnoldi.h / Lanczos.h. Include BEFORE any Spectra header.
// Events are counted per thread; a driver may install a callback that receives a type-erased view of the factorization.
#pragma once
#include <Eigen/Core>
#include <cstring>
#include <complex>
#include <functional>

namespace Spectra {
template <typename OpType, typename BOpType> class HermEigsBase;
template <typename OpType, typename BOpType> class GenEigsBase;
}

// friend of Arnoldi / Lanczos / HermEigsBase / GenEigsBase / LOBPCGSolver when SPECTRA_VERIF is defined
struct SpectraVerifAccess
{
    template <class Fac> static auto V(const Fac& f) -> decltype((f.m_fac_V)) { return f.m_fac_V; }
    template <class Fac> static auto H(const Fac& f) -> decltype((f.m_fac_H)) { return f.m_fac_H; }
    template <class Fac> static auto fvec(const Fac& f) -> decltype((f.m_fac_f)) { return f.m_fac_f; }
    template <class Fac> static auto beta(const Fac& f) -> decltype(f.m_beta) { return f.m_beta; }
    template <class Fac> static Eigen::Index k(const Fac& f) { return f.m_k; }
    template <class Fac> static Eigen::Index m(const Fac& f) { return f.m_m; }
    template <class Fac> static Eigen::Index n(const Fac& f) { return f.m_n; }
    // solver bases
    // (deduced on the base class: some derived solvers re-declare base members as private)
    template <class O, class B> static auto fac(Spectra::HermEigsBase<O, B>& s) -> decltype((s.m_fac)) { return s.m_fac; }
    template <class O, class B> static auto fac(Spectra::GenEigsBase<O, B>& s) -> decltype((s.m_fac)) { return s.m_fac; }
    template <class S> static auto ritz_val(S& s) -> decltype((s.m_ritz_val)) { return s.m_ritz_val; }
    template <class S> static auto ritz_est(S& s) -> decltype((s.m_ritz_est)) { return s.m_ritz_est; }
    template <class S> static auto ritz_vec(S& s) -> decltype((s.m_ritz_vec)) { return s.m_ritz_vec; }
    template <class S> static Eigen::Index nev_adjusted(S& s, Eigen::Index nconv) { return s.nev_adjusted(nconv); }
    template <class S, class R> static void restart(S& s, Eigen::Index k, R rule) { s.restart(k, rule); }
    template <class S> static Eigen::Index ncv(S& s) { return s.m_ncv; }
    template <class S> static Eigen::Index nev(S& s) { return s.m_nev; }
    template <class S> static Eigen::Index& nmatop(S& s) { return s.m_nmatop; }
    // LOBPCG
    template <class L> static auto lobpcg_X(const L& l) -> decltype((l.X)) { return l.X; }
};

namespace vfh {

// type-erased snapshot handed to the callback (complex long double holds every scalar type exactly)
struct View
{
    const char* point;
    Eigen::Index n, m, k;       // dimension, allocated subspace size, advertised / relevant dimension
    bool is_lanczos;
    bool is_complex;
    Eigen::Matrix<std::complex<long double>, Eigen::Dynamic, Eigen::Dynamic> V, H;
    Eigen::Matrix<std::complex<long double>, Eigen::Dynamic, 1> f;
    long double beta;
};

struct Sink
{
    long events = 0, init = 0, extend = 0, compress = 0, breakdown = 0, unresolved = 0;
    std::function<void(const View&)> cb;   // empty: count only
    void reset_counts() { events = init = extend = compress = breakdown = unresolved = 0; }
};
inline Sink& sink()
{
    static thread_local Sink s;
    return s;
}

template <class T> struct is_lanczos_type : std::false_type {};

template <class Fac>
void event(const char* point, const Fac& fac, Eigen::Index k)
{
    Sink& s = sink();
    s.events++;
    if (!std::strcmp(point, "init")) s.init++;
    else if (!std::strcmp(point, "extend")) s.extend++;
    else if (!std::strcmp(point, "compress")) s.compress++;
    else if (!std::strcmp(point, "breakdown")) s.breakdown++;
    else if (!std::strcmp(point, "handover")) {}   // raised by a harness when compute() has returned: the factorization as the Ritz extraction saw it
    else s.unresolved++;
    if (!s.cb) return;
    View v;
    v.point = point;
    v.n = SpectraVerifAccess::n(fac);
    v.m = SpectraVerifAccess::m(fac);
    v.k = k;
    using Scalar = typename std::decay<decltype(SpectraVerifAccess::V(fac))>::type::Scalar;
    v.is_complex = Eigen::NumTraits<Scalar>::IsComplex;
    v.is_lanczos = is_lanczos_type<Fac>::value;
    v.V = SpectraVerifAccess::V(fac).template cast<std::complex<long double>>();
    v.H = SpectraVerifAccess::H(fac).template cast<std::complex<long double>>();
    v.f = SpectraVerifAccess::fvec(fac).template cast<std::complex<long double>>();
    v.beta = (long double) SpectraVerifAccess::beta(fac);
    s.cb(v);
}

}  // namespace vfh

#define SPECTRA_VERIF_FAC_HOOK(point, fac, k) ::vfh::event(point, fac, k)

// Lanczos is recognised once its header has been seen
namespace Spectra { template <typename Scalar, typename ArnoldiOpType> class Lanczos; }
namespace vfh { template <class S, class O> struct is_lanczos_type<Spectra::Lanczos<S, O>> : std::true_type {}; }
