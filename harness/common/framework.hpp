// Worker-side framework shared by all drivers.
//
// A driver defines
//     const char* vf_driver();                       name (== property id, lower case ok)
//     long vf_ncases(const vf::Ctx&);                number of cases for the tier
//     void vf_run_case(vf::Ctx&, long idx);          run ONE case, report through ctx
// and includes this header in exactly one translation unit with VF_MAIN defined.
//
// Protocol with tools/check.py (one line per record, flushed immediately):
//     B <idx>                         case opened
//     T <idx> <tag>                   optional label of the open case (prefixed to crash keys)
//     V <idx> <key>\t<json>           violation inside the open case
//     I <idx> <reason>                case inconclusive
//     E <idx> <json>                  case closed; json = counters / nontrivial ids / max ratios / sample
//     D                               worker finished its slice
// A worker that dies leaves an open case behind; the runner attributes the death to it.
#pragma once
#include <cstdint>
#include <cstdio>
#include <cstdlib>
#include <cstring>
#include <csignal>
#include <sys/time.h>
#include <unistd.h>
#include <cmath>
#include <map>
#include <set>
#include <string>
#include <vector>
#include <sstream>
#include <exception>
#include <stdexcept>
#include <typeinfo>
#include <limits>

namespace vf {

// ---------------------------------------------------------------- tiny JSON builder
inline std::string jesc(const std::string& s)
{
    std::string o;
    for (char c : s)
    {
        switch (c)
        {
            case '"': o += "\\\""; break;
            case '\\': o += "\\\\"; break;
            case '\n': o += "\\n"; break;
            case '\t': o += "\\t"; break;
            case '\r': o += "\\r"; break;
            default:
                if ((unsigned char) c < 0x20) { char b[8]; snprintf(b, sizeof b, "\\u%04x", c); o += b; }
                else o += c;
        }
    }
    return o;
}
inline std::string jnum(long double v)
{
    if (!(v == v)) return "\"nan\"";
    if (v > 1.7e308L) return "\"inf\"";
    if (v < -1.7e308L) return "\"-inf\"";
    char b[64];
    snprintf(b, sizeof b, "%.6Lg", v);
    return b;
}
struct J
{
    std::string s;
    bool first = true;
    J() { s = "{"; }
    J& raw(const std::string& k, const std::string& v)
    {
        if (!first) s += ",";
        first = false;
        s += "\"" + jesc(k) + "\":" + v;
        return *this;
    }
    J& kv(const std::string& k, const std::string& v) { return raw(k, "\"" + jesc(v) + "\""); }
    J& kv(const std::string& k, const char* v) { return kv(k, std::string(v)); }
    J& kv(const std::string& k, long v) { return raw(k, std::to_string(v)); }
    J& kv(const std::string& k, int v) { return raw(k, std::to_string(v)); }
    J& kv(const std::string& k, long long v) { return raw(k, std::to_string(v)); }
    J& kv(const std::string& k, unsigned long v) { return raw(k, std::to_string(v)); }
    J& kv(const std::string& k, bool v) { return raw(k, v ? "true" : "false"); }
    J& kv(const std::string& k, double v) { return raw(k, jnum(v)); }
    J& kv(const std::string& k, long double v) { return raw(k, jnum(v)); }
    J& kv(const std::string& k, float v) { return raw(k, jnum(v)); }
    std::string str() const { return s + "}"; }
};

// ---------------------------------------------------------------- deterministic RNG
struct Rng
{
    uint64_t s[4];
    static uint64_t splitmix(uint64_t& x)
    {
        uint64_t z = (x += 0x9e3779b97f4a7c15ULL);
        z = (z ^ (z >> 30)) * 0xbf58476d1ce4e5b9ULL;
        z = (z ^ (z >> 27)) * 0x94d049bb133111ebULL;
        return z ^ (z >> 31);
    }
    explicit Rng(uint64_t seed = 1) { reseed(seed); }
    void reseed(uint64_t seed)
    {
        uint64_t x = seed;
        for (int i = 0; i < 4; i++) s[i] = splitmix(x);
    }
    static uint64_t rotl(uint64_t x, int k) { return (x << k) | (x >> (64 - k)); }
    uint64_t next()
    {
        const uint64_t r = rotl(s[1] * 5, 7) * 9, t = s[1] << 17;
        s[2] ^= s[0]; s[3] ^= s[1]; s[1] ^= s[2]; s[0] ^= s[3];
        s[2] ^= t; s[3] = rotl(s[3], 45);
        return r;
    }
    // uniform integer in [lo, hi]
    long range(long lo, long hi)
    {
        if (hi <= lo) return lo;
        return lo + (long) (next() % (uint64_t) (hi - lo + 1));
    }
    // uniform in [0,1)
    double uni() { return (double) (next() >> 11) * (1.0 / 9007199254740992.0); }
    double uni(double a, double b) { return a + (b - a) * uni(); }
    double gauss()
    {
        double u1 = uni(), u2 = uni();
        if (u1 < 1e-300) u1 = 1e-300;
        return std::sqrt(-2.0 * std::log(u1)) * std::cos(6.283185307179586 * u2);
    }
    bool coin(double p = 0.5) { return uni() < p; }
    template <class T>
    const T& pick(const std::vector<T>& v) { return v[(size_t) range(0, (long) v.size() - 1)]; }
};
inline uint64_t fnv(const std::string& s, uint64_t h = 1469598103934665603ULL)
{
    for (unsigned char c : s) { h ^= c; h *= 1099511628211ULL; }
    return h;
}

// ---------------------------------------------------------------- per-case context
struct Ctx
{
    uint64_t seed = 1;       // VERIF_SEED
    bool thorough = false;   // tier
    int worker = 0, nworkers = 1;
    long idx = 0;            // open case
    FILE* log = nullptr;
    Rng rng;                 // reseeded per case
    // per-case outputs
    std::map<std::string, long> counters;
    std::map<std::string, long double> maxr;
    std::vector<uint64_t> nontrivial;
    std::string sample;
    long nviol = 0;
    bool want_sample = false;
    std::string tag;         // optional label of the open case (e.g. "corpus/<id>"); prefixed by the runner to crash keys

    // label the open case; must be called first thing in vf_run_case
    void set_tag(const std::string& t)
    {
        tag = t;
        fprintf(log, "T %ld %s\n", idx, t.c_str());
        fflush(log);
    }

    // a digest of what the case computed ("G idx hex"): the runner compares it between the run inside the worker's sequence and a run of the case alone
    void digest(uint64_t h)
    {
        fprintf(log, "G %ld %016llx\n", idx, (unsigned long long) h);
        fflush(log);
    }
    static uint64_t fnv_bytes(const void* p, size_t n, uint64_t h = 1469598103934665603ULL)
    {
        const unsigned char* b = (const unsigned char*) p;
        for (size_t i = 0; i < n; i++) { h ^= b[i]; h *= 1099511628211ULL; }
        return h;
    }

    // say what the open case is running (solver class, ...): used by the runner to name a case that never came back (CPU watchdog)
    void set_where(const std::string& w)
    {
        fprintf(log, "W %ld %s\n", idx, w.c_str());
        fflush(log);
    }

    // Reseed for a case. corpus == true: independent of VERIF_SEED (fixed regression corpus).
    void case_rng(const std::string& stream, long i, bool corpus = false)
    {
        uint64_t h = fnv(stream);
        uint64_t base = corpus ? 0xC0A9B5ULL : seed;
        uint64_t x = h ^ (base * 0x9e3779b97f4a7c15ULL) ^ ((uint64_t) i * 0xd1342543de82ef95ULL);
        rng.reseed(x);
    }
    void count(const std::string& k, long n = 1) { counters[k] += n; }
    void maxratio(const std::string& k, long double v)
    {
        if (!(v == v)) v = std::numeric_limits<long double>::infinity();
        auto it = maxr.find(k);
        if (it == maxr.end() || v > it->second) maxr[k] = v;
    }
    void nontriv(const std::string& id) { nontrivial.push_back(fnv(id)); }
    void nontriv(uint64_t h) { nontrivial.push_back(h); }
    void set_sample(const std::string& json) { sample = json; }
    void violation(const std::string& key, const std::string& json)
    {
        nviol++;
        // tabs / newlines never appear in keys
        fprintf(log, "V %ld %s\t%s\n", idx, key.c_str(), json.c_str());
        fflush(log);
    }
    void inconclusive(const std::string& reason)
    {
        fprintf(log, "I %ld %s\n", idx, reason.c_str());
        fflush(log);
    }
};

}  // namespace vf

const char* vf_driver();
long vf_ncases(const vf::Ctx&);
void vf_run_case(vf::Ctx&, long idx);
// optional one-time setup per worker process (default: weak no-op)
#ifndef VF_HAVE_SETUP
__attribute__((weak)) void vf_setup(vf::Ctx&) {}
#else
void vf_setup(vf::Ctx&);
#endif

#ifdef VF_MAIN
#include <cxxabi.h>
static std::string vf_demangle(const char* n)
{
    int st = 0;
    char* d = abi::__cxa_demangle(n, nullptr, nullptr, &st);
    std::string r = (st == 0 && d) ? d : n;
    free(d);
    return r;
}
int main(int argc, char** argv)
{
    vf::Ctx ctx;
    long start = 0, only = -1, stop = -1;
    const char* logpath = nullptr;
    bool print_n = false;
    for (int i = 1; i < argc; i++)
    {
        std::string a = argv[i];
        auto nxt = [&]() -> const char* { if (i + 1 >= argc) { fprintf(stderr, "missing value for %s\n", a.c_str()); exit(2); } return argv[++i]; };
        if (a == "--seed") ctx.seed = strtoull(nxt(), nullptr, 10);
        else if (a == "--tier") ctx.thorough = (std::string(nxt()) == "thorough");
        else if (a == "--worker") ctx.worker = atoi(nxt());
        else if (a == "--nworkers") ctx.nworkers = atoi(nxt());
        else if (a == "--start") start = atol(nxt());
        else if (a == "--stop") stop = atol(nxt());
        else if (a == "--only") only = atol(nxt());
        else if (a == "--log") logpath = nxt();
        else if (a == "--ncases") print_n = true;
        else { fprintf(stderr, "unknown argument %s\n", a.c_str()); return 2; }
    }
    if (print_n) { printf("%ld\n", vf_ncases(ctx)); return 0; }
    ctx.log = logpath ? fopen(logpath, "a") : stdout;
    if (!ctx.log) { perror("log"); return 2; }
    vf_setup(ctx);
    // CPU-time watchdog per case (user-mode CPU seconds of this process: independent of how loaded the machine is). A case that burns this much CPU is
    // not making progress; the process leaves with code 86 and the runner decides (C13: termination violation after a confirming re-run; elsewhere: inconclusive).
    long cpu_limit = 0;
    if (const char* cl = getenv("VF_CASE_CPU")) cpu_limit = atol(cl);
    if (cpu_limit > 0)
    {
        struct sigaction sa;
        memset(&sa, 0, sizeof sa);
        sa.sa_handler = [](int) { _exit(86); };
        sigaction(SIGVTALRM, &sa, nullptr);
    }
    auto arm = [&](long secs) { if (cpu_limit > 0) { struct itimerval tv; memset(&tv, 0, sizeof tv); tv.it_value.tv_sec = secs; setitimer(ITIMER_VIRTUAL, &tv, nullptr); } };
    const long total = vf_ncases(ctx);
    long sample_every = total / 64 + 1;
    for (long idx = (only >= 0 ? only : start); idx < total; idx++)
    {
        if (only < 0 && (idx % ctx.nworkers) != ctx.worker) continue;
        if (stop >= 0 && idx >= stop) break;
        ctx.idx = idx;
        ctx.counters.clear(); ctx.maxr.clear(); ctx.nontrivial.clear(); ctx.sample.clear(); ctx.nviol = 0; ctx.tag.clear();
        ctx.want_sample = (idx % sample_every == 0) || only >= 0;
        ctx.case_rng(vf_driver(), idx);
        fprintf(ctx.log, "B %ld\n", idx);
        fflush(ctx.log);
        arm(cpu_limit);
        try
        {
            vf_run_case(ctx, idx);
        }
        catch (const std::exception& e)
        {
            ctx.violation(std::string("harness/uncaught/") + vf_demangle(typeid(e).name()),
                          vf::J().kv("what", e.what()).str());
        }
        catch (...)
        {
            ctx.violation("harness/uncaught/unknown", "{}");
        }
        arm(0);
        std::string c = "{", m = "{", nt = "[";
        bool f = true;
        for (auto& kv : ctx.counters) { if (!f) c += ","; f = false; c += "\"" + vf::jesc(kv.first) + "\":" + std::to_string(kv.second); }
        c += "}";
        f = true;
        for (auto& kv : ctx.maxr) { if (!f) m += ","; f = false; m += "\"" + vf::jesc(kv.first) + "\":" + vf::jnum(kv.second); }
        m += "}";
        f = true;
        for (auto h : ctx.nontrivial) { if (!f) nt += ","; f = false; nt += "\"" + std::to_string(h) + "\""; }
        nt += "]";
        fprintf(ctx.log, "E %ld {\"c\":%s,\"m\":%s,\"nt\":%s%s%s}\n", idx, c.c_str(), m.c_str(), nt.c_str(),
                ctx.sample.empty() ? "" : ",\"s\":", ctx.sample.empty() ? "" : ctx.sample.c_str());
        fflush(ctx.log);
        if (only >= 0) break;
    }
    fprintf(ctx.log, "D\n");
    fflush(ctx.log);
    return 0;
}
#endif
