// The solver zoo: one factory per solver configuration of the Arnoldi/Lanczos family, with a uniform interface
// (make_ops / make_solver / controls / probe). Used by C05, C06, C13, C14, C20.
#pragma once
#include <memory>
#include <Eigen/Dense>
#include <Eigen/Sparse>
#include "framework.hpp"
#include "oracle.hpp"
#include "gen.hpp"
#include "opwrap.hpp"
#include "solvers.hpp"
#include "kernfault.hpp"
#include <Spectra/SymEigsSolver.h>
#include <Spectra/HermEigsSolver.h>
#include <Spectra/SymEigsShiftSolver.h>
#include <Spectra/GenEigsSolver.h>
#include <Spectra/GenEigsRealShiftSolver.h>
#include <Spectra/GenEigsComplexShiftSolver.h>
#include <Spectra/SymGEigsSolver.h>
#include <Spectra/SymGEigsShiftSolver.h>
#include <Spectra/MatOp/DenseSymMatProd.h>
#include <Spectra/MatOp/SparseSymMatProd.h>
#include <Spectra/MatOp/DenseHermMatProd.h>
#include <Spectra/MatOp/SparseHermMatProd.h>
#include <Spectra/MatOp/DenseSymShiftSolve.h>
#include <Spectra/MatOp/SparseSymShiftSolve.h>
#include <Spectra/MatOp/DenseGenMatProd.h>
#include <Spectra/MatOp/SparseGenMatProd.h>
#include <Spectra/MatOp/DenseGenRealShiftSolve.h>
#include <Spectra/MatOp/SparseGenRealShiftSolve.h>
#include <Spectra/MatOp/DenseGenComplexShiftSolve.h>
#include <Spectra/MatOp/SparseGenComplexShiftSolve.h>
#include <Spectra/MatOp/DenseCholesky.h>
#include <Spectra/MatOp/SparseCholesky.h>
#include <Spectra/MatOp/SparseRegularInverse.h>
#include <Spectra/MatOp/SymShiftInvert.h>

namespace vz {
using namespace vs;
using Spectra::GEigsMode;

static const int N_FAMILY = 17;
static const char* FAMILY[N_FAMILY] = {
    "SymEigsSolver<DenseSymMatProd>", "SymEigsSolver<SparseSymMatProd>", "HermEigsSolver<DenseHermMatProd>",
    "SymEigsShiftSolver<DenseSymShiftSolve>", "SymEigsShiftSolver<SparseSymShiftSolve>",
    "GenEigsSolver<DenseGenMatProd>", "GenEigsSolver<SparseGenMatProd>",
    "GenEigsRealShiftSolver<DenseGenRealShiftSolve>", "GenEigsRealShiftSolver<SparseGenRealShiftSolve>",
    "GenEigsComplexShiftSolver<DenseGenComplexShiftSolve>", "GenEigsComplexShiftSolver<SparseGenComplexShiftSolve>",
    "SymGEigsSolver<Dense,DenseCholesky,Cholesky>", "SymGEigsSolver<Sparse,SparseCholesky,Cholesky>", "SymGEigsSolver<Sparse,SparseRegularInverse,RegularInverse>",
    "SymGEigsShiftSolver<SymShiftInvert<Sparse,Sparse,Upper,Lower>,ShiftInvert>", "SymGEigsShiftSolver<SymShiftInvert<Dense,Dense,Upper,Lower>,Buckling>",
    "SymGEigsShiftSolver<SymShiftInvert<Sparse,Dense,Lower,Upper>,Cayley>"};
static const char* FSHORT[N_FAMILY] = {"sym-dense", "sym-sparse", "herm-dense", "symshift-dense", "symshift-sparse", "gen-dense", "gen-sparse", "genrs-dense",
                                       "genrs-sparse", "gencs-dense", "gencs-sparse", "geigs-chol-dense", "geigs-chol-sparse", "geigs-reginv", "geigs-shiftinv",
                                       "geigs-buckling", "geigs-cayley"};
inline int family_group(int f) { return f <= 4 ? 0 : (f <= 10 ? 1 : 2); }
inline bool family_is_gen(int f) { return f >= 5 && f <= 10; }
inline bool family_is_generalized(int f) { return f >= 11; }

// ------------------------------------------------------------------------------- problem data
template <class T>
struct Data
{
    using CT = std::complex<T>;
    using MatT = Eigen::Matrix<T, Eigen::Dynamic, Eigen::Dynamic>;
    using MatCT = Eigen::Matrix<CT, Eigen::Dynamic, Eigen::Dynamic>;
    using SpT = Eigen::SparseMatrix<T>;
    int family = 0, n = 0, nev = 0, ncv = 0, cls = 0;
    double scale = 1;
    MatT A, B;       // A: symmetric / general; B: SPD (generalized problems; K in buckling mode is A, K_G is B with roles as documented)
    SpT As, Bs;
    MatCT AH;        // complex Hermitian (family 2)
    T sigma = 0, sigmai = 0;
    std::string classname;
};

// clean-domain problem for a family (DESIGN section 4: the domain on which the strict oracles are silent on the repaired tree)
template <class T>
Data<T> make_data(vf::Rng& r, int family, int nmax, bool hostile = false)
{
    Data<T> d;
    d.family = family;
    const bool gen = family_is_gen(family);
    vg::Config c = gen ? vg::gen_config(r, 3, nmax) : vg::sym_config(r, 2, nmax);
    d.n = c.n; d.nev = c.nev; d.ncv = c.ncv;
    d.scale = hostile ? std::pow(10.0, (double) r.range(-8, 8)) : (r.coin(0.6) ? 1.0 : std::pow(10.0, (double) r.range(-2, 2)));
    if (gen)
    {
        static const int CLEAN[] = {0, 1, 6, 11};
        d.cls = hostile ? (int) r.range(0, vg::N_GEN_CLASS - 1) : CLEAN[r.range(0, 3)];
        d.classname = vg::GEN_CLASS[d.cls];
        d.A = vg::gen_matrix(r, d.n, d.cls, d.scale).template cast<T>();
        d.As = d.A.sparseView();
        // shifts: at 1e-1..1e-2 of the spread from an eigenvalue estimate (diagonal entries are good enough as anchors)
        const double nrm = (double) d.A.norm() / std::sqrt((double) d.n) + 1e-300;
        d.sigma = T((double) d.A(r.range(0, d.n - 1), r.range(0, d.n - 1)) + (r.coin() ? 1 : -1) * nrm * r.uni(0.3, 1.0));
        d.sigmai = T(nrm * r.uni(0.2, 1.0));
    }
    else
    {
        static const int CLEAN[] = {0, 6, 7, 10, 11};
        d.cls = hostile ? (int) r.range(0, vg::N_SYM_CLASS - 1) : CLEAN[r.range(0, 4)];
        d.classname = vg::SYM_CLASS[d.cls];
        if (family == 2)
        {
            d.AH = vg::herm_matrix(r, d.n, d.cls, d.scale).template cast<std::complex<T>>();
        }
        else
        {
            d.A = vg::sym_matrix(r, d.n, d.cls, d.scale).template cast<T>();
            d.As = d.A.sparseView();
        }
        if (family == 3 || family == 4 || family >= 14)
        {
            // shift outside or inside the spectrum at a moderate distance
            Eigen::SelfAdjointEigenSolver<Eigen::MatrixXd> ref(d.A.template cast<double>());
            // (floor: a multiple of the identity or the zero matrix has no spread; the shift must still sit at a sensible distance)
            const double lo = ref.eigenvalues()[0], hi = ref.eigenvalues()[d.n - 1], spread = std::max(hi - lo, 1e-3 * std::max(std::max(std::abs(hi), std::abs(lo)), d.scale));
            const int j = (int) r.range(0, d.n - 1);
            double s = ref.eigenvalues()[j] + (r.coin() ? 1 : -1) * spread * (r.coin() ? 0.1 : 0.03);
            if (r.coin(0.3)) s = lo - spread * r.uni(0.05, 0.5);
            d.sigma = T(s);
        }
        if (family >= 11)
        {
            // SPD B with condition number <= 100 (1e4 when hostile), same scale as A
            vg::MatD Q = vg::rand_orth(r, d.n);
            vg::VecD e(d.n);
            const double lc = hostile ? r.uni(0, 4) : r.uni(0, 2);
            for (int i = 0; i < d.n; i++) e[i] = std::pow(10.0, -lc * i / std::max(1, d.n - 1));
            vg::MatD Bd = Q * e.asDiagonal() * Q.transpose();
            for (int j = 0; j < d.n; j++) for (int i = 0; i < j; i++) Bd(i, j) = Bd(j, i);
            d.B = Bd.template cast<T>();
            d.Bs = d.B.sparseView();
            if (family == 15)
            {
                // buckling: K (here A) must be positive definite, K_G (here B) may be indefinite: swap roles
                d.A = d.B;  // K := SPD
                d.As = d.A.sparseView();
                d.B = vg::sym_matrix(r, d.n, 0, 1.0).template cast<T>();  // K_G indefinite
                d.Bs = d.B.sparseView();
                d.sigma = T(r.uni(0.5, 2.0) * (r.coin() ? 1 : -1));
            }
            if (family >= 14 && family != 15)
            {
                // generalized shift: place sigma relative to the generalized spectrum
                Eigen::GeneralizedSelfAdjointEigenSolver<Eigen::MatrixXd> ref(d.A.template cast<double>(), d.B.template cast<double>(), Eigen::EigenvaluesOnly);
                const double lo = ref.eigenvalues()[0], hi = ref.eigenvalues()[d.n - 1], spread = std::max(hi - lo, 1e-3 * std::max(std::max(std::abs(hi), std::abs(lo)), d.scale));
                const int j = (int) r.range(0, d.n - 1);
                double s = ref.eigenvalues()[j] + (r.coin() ? 1 : -1) * spread * (r.coin() ? 0.1 : 0.03);
                if (std::abs(s) < 1e-3 * spread) s = 0.05 * spread;   // Cayley needs sigma != 0
                d.sigma = T(s);
            }
        }
    }
    return d;
}

// ------------------------------------------------------------------------------- factories
template <class T, int F> struct Fac;

#define VZ_COMMON(FAMILYNO, ISGEN)                                                  \
    static constexpr int family = FAMILYNO;                                          \
    static constexpr bool is_gen = ISGEN;                                            \
    const Data<T>& d;                                                                \
    explicit Fac(const Data<T>& dd) : d(dd) {}                                       \
    const std::vector<SortRule>& select_rules() const { return ISGEN ? GEN_SELECT : SYM_SELECT; } \
    const std::vector<SortRule>& sort_rules() const { return ISGEN ? GEN_SELECT : SYM_SORT; }

// --- standard, one operator
#define VZ_SINGLE(FAMILYNO, ISGEN, SCALAR, OPTYPE, MATEXPR, SOLVER, CTORARGS)        \
    template <class T> struct Fac<T, FAMILYNO>                                       \
    {                                                                                \
        using Scalar = SCALAR;                                                       \
        using Op = vw::Wrap<OPTYPE>;                                                 \
        VZ_COMMON(FAMILYNO, ISGEN)                                                   \
        struct Ops                                                                   \
        {                                                                            \
            vw::OpCtl ctl;                                                           \
            Op op;                                                                   \
            explicit Ops(const Data<T>& d) : op(&ctl, MATEXPR) {}                    \
            vw::OpCtl& main_ctl() { return ctl; }                                    \
            std::vector<vw::OpCtl*> ctls() { return {&ctl}; }                        \
            void probe(const Scalar* x, Scalar* y) { const bool v = ctl.validate; const long c = ctl.count, t = ctl.total; op.perform_op(x, y); ctl.count = c; ctl.total = t; (void) v; } \
        };                                                                           \
        using Solver = SOLVER<Op>;                                                   \
        std::unique_ptr<Ops> make_ops() const { return std::unique_ptr<Ops>(new Ops(d)); } \
        std::unique_ptr<Solver> make_solver(Ops& o) const { return std::unique_ptr<Solver>(new Solver CTORARGS); } \
    };

VZ_SINGLE(0, false, T, Spectra::DenseSymMatProd<T>, d.A, Spectra::SymEigsSolver, (o.op, d.nev, d.ncv))
VZ_SINGLE(1, false, T, Spectra::SparseSymMatProd<T>, d.As, Spectra::SymEigsSolver, (o.op, d.nev, d.ncv))
VZ_SINGLE(2, false, std::complex<T>, Spectra::DenseHermMatProd<std::complex<T>>, d.AH, Spectra::HermEigsSolver, (o.op, d.nev, d.ncv))
VZ_SINGLE(3, false, T, Spectra::DenseSymShiftSolve<T>, d.A, Spectra::SymEigsShiftSolver, (o.op, d.nev, d.ncv, d.sigma))
VZ_SINGLE(4, false, T, Spectra::SparseSymShiftSolve<T>, d.As, Spectra::SymEigsShiftSolver, (o.op, d.nev, d.ncv, d.sigma))
VZ_SINGLE(5, true, T, Spectra::DenseGenMatProd<T>, d.A, Spectra::GenEigsSolver, (o.op, d.nev, d.ncv))
VZ_SINGLE(6, true, T, Spectra::SparseGenMatProd<T>, d.As, Spectra::GenEigsSolver, (o.op, d.nev, d.ncv))
VZ_SINGLE(7, true, T, Spectra::DenseGenRealShiftSolve<T>, d.A, Spectra::GenEigsRealShiftSolver, (o.op, d.nev, d.ncv, d.sigma))
VZ_SINGLE(8, true, T, Spectra::SparseGenRealShiftSolve<T>, d.As, Spectra::GenEigsRealShiftSolver, (o.op, d.nev, d.ncv, d.sigma))
VZ_SINGLE(9, true, T, Spectra::DenseGenComplexShiftSolve<T>, d.A, Spectra::GenEigsComplexShiftSolver, (o.op, d.nev, d.ncv, d.sigma, d.sigmai))
VZ_SINGLE(10, true, T, Spectra::SparseGenComplexShiftSolve<T>, d.As, Spectra::GenEigsComplexShiftSolver, (o.op, d.nev, d.ncv, d.sigma, d.sigmai))

// --- generalized, two operators (A-operator counted as "the iteration's applications"; faults can be injected in either)
#define VZ_PAIR(FAMILYNO, AOPTYPE, AARGS, BOPTYPE, BARGS, SOLVEREXPR, CTORARGS)      \
    template <class T> struct Fac<T, FAMILYNO>                                       \
    {                                                                                \
        using Scalar = T;                                                            \
        using OpA = vw::Wrap<AOPTYPE>;                                               \
        using OpB = vw::Wrap<BOPTYPE>;                                               \
        VZ_COMMON(FAMILYNO, false)                                                   \
        struct Ops                                                                   \
        {                                                                            \
            vw::OpCtl ctl, ctlB;                                                     \
            OpA op;                                                                  \
            OpB bop;                                                                 \
            explicit Ops(const Data<T>& d) : op AARGS, bop BARGS {}                  \
            vw::OpCtl& main_ctl() { return ctl; }                                    \
            std::vector<vw::OpCtl*> ctls() { return {&ctl, &ctlB}; }                 \
            void probe(const Scalar* x, Scalar* y) { const long c = ctl.count, t = ctl.total; op.perform_op(x, y); ctl.count = c; ctl.total = t; } \
        };                                                                           \
        using Solver = SOLVEREXPR;                                                   \
        std::unique_ptr<Ops> make_ops() const { return std::unique_ptr<Ops>(new Ops(d)); } \
        std::unique_ptr<Solver> make_solver(Ops& o) const { return std::unique_ptr<Solver>(new Solver CTORARGS); } \
    };

#define VZ_COMMA ,
VZ_PAIR(11, Spectra::DenseSymMatProd<T>, (&ctl, d.A), Spectra::DenseCholesky<T>, (&ctlB, d.B),
        Spectra::SymGEigsSolver<OpA VZ_COMMA OpB VZ_COMMA GEigsMode::Cholesky>, (o.op, o.bop, d.nev, d.ncv))
VZ_PAIR(12, Spectra::SparseSymMatProd<T>, (&ctl, d.As), Spectra::SparseCholesky<T>, (&ctlB, d.Bs),
        Spectra::SymGEigsSolver<OpA VZ_COMMA OpB VZ_COMMA GEigsMode::Cholesky>, (o.op, o.bop, d.nev, d.ncv))
VZ_PAIR(13, Spectra::SparseSymMatProd<T>, (&ctl, d.As), Spectra::SparseRegularInverse<T>, (&ctlB, d.Bs),
        Spectra::SymGEigsSolver<OpA VZ_COMMA OpB VZ_COMMA GEigsMode::RegularInverse>, (o.op, o.bop, d.nev, d.ncv))
// (mixed triangle options on purpose: the default Lower/Lower runs everywhere in the library's own tests; C03 and C11 sweep all combinations)
VZ_PAIR(14, Spectra::SymShiftInvert<T VZ_COMMA Eigen::Sparse VZ_COMMA Eigen::Sparse VZ_COMMA Eigen::Upper VZ_COMMA Eigen::Lower>, (&ctl, d.As, d.Bs), Spectra::SparseSymMatProd<T>, (&ctlB, d.Bs),
        Spectra::SymGEigsShiftSolver<OpA VZ_COMMA OpB VZ_COMMA GEigsMode::ShiftInvert>, (o.op, o.bop, d.nev, d.ncv, d.sigma))
VZ_PAIR(15, Spectra::SymShiftInvert<T VZ_COMMA Eigen::Dense VZ_COMMA Eigen::Dense VZ_COMMA Eigen::Upper VZ_COMMA Eigen::Lower>, (&ctl, d.A, d.B), Spectra::DenseSymMatProd<T>, (&ctlB, d.A),
        Spectra::SymGEigsShiftSolver<OpA VZ_COMMA OpB VZ_COMMA GEigsMode::Buckling>, (o.op, o.bop, d.nev, d.ncv, d.sigma))
VZ_PAIR(16, Spectra::SymShiftInvert<T VZ_COMMA Eigen::Sparse VZ_COMMA Eigen::Dense VZ_COMMA Eigen::Lower VZ_COMMA Eigen::Upper>, (&ctl, d.As, d.B), Spectra::DenseSymMatProd<T>, (&ctlB, d.B),
        Spectra::SymGEigsShiftSolver<OpA VZ_COMMA OpB VZ_COMMA GEigsMode::Cayley>, (o.op, o.bop, d.nev, d.ncv, d.sigma))

// dispatch: call f(Fac<T, F>) for the family; families outside the compiled group are skipped (returns false)
#ifndef ZOO_GROUP
#define ZOO_GROUP -1   // -1: all groups in one translation unit
#endif
template <class T, class Fn>
bool with_family(const Data<T>& d, Fn&& f)
{
    switch (d.family)
    {
#if ZOO_GROUP == -1 || ZOO_GROUP == 0
        case 0: f(Fac<T, 0>(d)); return true;
        case 1: f(Fac<T, 1>(d)); return true;
        case 2: f(Fac<T, 2>(d)); return true;
        case 3: f(Fac<T, 3>(d)); return true;
        case 4: f(Fac<T, 4>(d)); return true;
#endif
#if ZOO_GROUP == -1 || ZOO_GROUP == 1
        case 5: f(Fac<T, 5>(d)); return true;
        case 6: f(Fac<T, 6>(d)); return true;
        case 7: f(Fac<T, 7>(d)); return true;
        case 8: f(Fac<T, 8>(d)); return true;
        case 9: f(Fac<T, 9>(d)); return true;
        case 10: f(Fac<T, 10>(d)); return true;
#endif
#if ZOO_GROUP == -1 || ZOO_GROUP == 2
        case 11: f(Fac<T, 11>(d)); return true;
        case 12: f(Fac<T, 12>(d)); return true;
        case 13: f(Fac<T, 13>(d)); return true;
        case 14: f(Fac<T, 14>(d)); return true;
        case 15: f(Fac<T, 15>(d)); return true;
        case 16: f(Fac<T, 16>(d)); return true;
#endif
        default: return false;
    }
}
// the families compiled into this translation unit
inline std::vector<int> compiled_families()
{
    std::vector<int> v;
    for (int f = 0; f < N_FAMILY; f++)
        if (ZOO_GROUP == -1 || family_group(f) == ZOO_GROUP) v.push_back(f);
    return v;
}

// Prelude of a worker's sequence (VF_PRELUDE=1, not in a run of one case alone): every sparse solver family of this build first solves a problem that is
// thousands of times larger than the cases that follow. Anything a solver remembers outside its own object - a function-local static initialised from the
// first instance's size, a cache - then differs between the sequence and the run alone.
template <class T>
inline void run_prelude()
{
    if (!getenv("VF_PRELUDE")) return;
    const int n = 60000;
    using SpT = Eigen::SparseMatrix<T>;
    std::vector<Eigen::Triplet<T>> ta, tb, tg;
    for (int i = 0; i < n; i++)
    {
        ta.emplace_back(i, i, T(2.0 + 0.5 * std::sin(0.37 * i)));
        tb.emplace_back(i, i, T(1.5));
        tg.emplace_back(i, i, T(1.0 + 0.3 * std::cos(0.11 * i)));
        if (i + 1 < n) { ta.emplace_back(i, i + 1, T(-1)); ta.emplace_back(i + 1, i, T(-1)); tb.emplace_back(i, i + 1, T(0.25)); tb.emplace_back(i + 1, i, T(0.25)); tg.emplace_back(i, i + 1, T(0.7)); tg.emplace_back(i + 1, i, T(-0.4)); }
    }
    SpT As(n, n), Bs(n, n), Gs(n, n);
    As.setFromTriplets(ta.begin(), ta.end()); Bs.setFromTriplets(tb.begin(), tb.end()); Gs.setFromTriplets(tg.begin(), tg.end());
    for (int f : compiled_families())
    {
        if (!(f == 1 || f == 4 || f == 6 || f == 8 || f == 10 || f == 12 || f == 13 || f == 14)) continue;   // the families whose operators are sparse throughout
        Data<T> d;
        d.family = f; d.n = n; d.nev = 2; d.ncv = 8; d.classname = "prelude";
        d.As = family_is_gen(f) ? Gs : As;
        d.Bs = Bs;
        d.sigma = T(0.123); d.sigmai = T(0.5);
        try
        {
            with_family<T>(d, [&](auto fac) {
                auto ops = fac.make_ops();
                auto es = fac.make_solver(*ops);
                es->init();
                (void) es->compute(fac.select_rules()[0], 3, T(1e-6), fac.sort_rules()[0]);
            });
        }
        catch (const std::exception&) {}
    }
}


}  // namespace vz
