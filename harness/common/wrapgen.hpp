// Helpers for C11: present a full reference matrix to a wrapper in a given storage / triangle configuration.
#pragma once
#include <Eigen/Dense>
#include <Eigen/Sparse>
#include <complex>
#include <type_traits>
#include "framework.hpp"
#include "oracle.hpp"

namespace vwg {
using namespace vo;

template <class S> struct Rnd;
template <> struct Rnd<float> { static float g(vf::Rng& r) { return (float) r.gauss(); } };
template <> struct Rnd<double> { static double g(vf::Rng& r) { return r.gauss(); } };
template <> struct Rnd<long double> { static long double g(vf::Rng& r) { return (long double) r.gauss(); } };
template <class R> struct Rnd<std::complex<R>> { static std::complex<R> g(vf::Rng& r) { return {Rnd<R>::g(r), Rnd<R>::g(r)}; } };

template <class S> S nan_of()
{
    using R = typename Eigen::NumTraits<S>::Real;
    return S(std::numeric_limits<R>::quiet_NaN());
}

// poison: 0 = the other triangle mirrors the documented one; 1 = NaN; 2 = unrelated finite numbers.  uplo: Eigen::Lower / Eigen::Upper / 0 (general: everything kept)
template <class S, int Flags>
Eigen::Matrix<S, Eigen::Dynamic, Eigen::Dynamic, Flags> dense_from(const Eigen::Matrix<S, Eigen::Dynamic, Eigen::Dynamic>& F, int uplo, int poison, vf::Rng& r)
{
    const Eigen::Index n = F.rows(), m = F.cols();
    Eigen::Matrix<S, Eigen::Dynamic, Eigen::Dynamic, Flags> P(n, m);
    for (Eigen::Index j = 0; j < m; j++)
        for (Eigen::Index i = 0; i < n; i++)
        {
            const bool keep = uplo == 0 || i == j || (uplo == Eigen::Lower ? i > j : i < j);
            P(i, j) = keep || poison == 0 ? F(i, j) : (poison == 1 ? nan_of<S>() : Rnd<S>::g(r) * S(3));
        }
    return P;
}
// sparse: entries of F that are exactly zero are not stored; the other triangle is stored as NaN / junk when poisoned, left out when poison == 3
template <class S, int Flags, class SI>
Eigen::SparseMatrix<S, Flags, SI> sparse_from(const Eigen::Matrix<S, Eigen::Dynamic, Eigen::Dynamic>& F, int uplo, int poison, vf::Rng& r)
{
    const Eigen::Index n = F.rows(), m = F.cols();
    std::vector<Eigen::Triplet<S, SI>> tr;
    for (Eigen::Index j = 0; j < m; j++)
        for (Eigen::Index i = 0; i < n; i++)
        {
            if (F(i, j) == S(0)) continue;
            const bool keep = uplo == 0 || i == j || (uplo == Eigen::Lower ? i > j : i < j);
            if (keep || poison == 0) tr.emplace_back((SI) i, (SI) j, F(i, j));
            else if (poison == 1) tr.emplace_back((SI) i, (SI) j, nan_of<S>());
            else if (poison == 2) tr.emplace_back((SI) i, (SI) j, Rnd<S>::g(r) * S(3));
        }
    Eigen::SparseMatrix<S, Flags, SI> P(n, m);
    P.setFromTriplets(tr.begin(), tr.end());
    P.makeCompressed();
    return P;
}

// random reference matrices (entries exactly representable in S; built in S so that the wrapper and the oracle see the same numbers)
template <class S>
Eigen::Matrix<S, Eigen::Dynamic, Eigen::Dynamic> rand_full(vf::Rng& r, int n, double density)
{
    Eigen::Matrix<S, Eigen::Dynamic, Eigen::Dynamic> A(n, n);
    for (int j = 0; j < n; j++) for (int i = 0; i < n; i++) A(i, j) = (r.uni() < density) ? Rnd<S>::g(r) : S(0);
    return A;
}
template <class S>
Eigen::Matrix<S, Eigen::Dynamic, Eigen::Dynamic> rand_herm(vf::Rng& r, int n, double density, double diag_boost)
{
    using R = typename Eigen::NumTraits<S>::Real;
    Eigen::Matrix<S, Eigen::Dynamic, Eigen::Dynamic> A = Eigen::Matrix<S, Eigen::Dynamic, Eigen::Dynamic>::Zero(n, n);
    for (int j = 0; j < n; j++)
    {
        A(j, j) = S(R(Eigen::numext::real(Rnd<S>::g(r))) + R(diag_boost));
        for (int i = j + 1; i < n; i++)
            if (r.uni() < density) { A(i, j) = Rnd<S>::g(r); A(j, i) = Eigen::numext::conj(A(i, j)); }
    }
    return A;
}
// SPD with condition number around `cond` (banded + diagonal dominance keeps it sparse-friendly)
template <class S>
Eigen::Matrix<S, Eigen::Dynamic, Eigen::Dynamic> rand_spd(vf::Rng& r, int n, double density)
{
    using R = typename Eigen::NumTraits<S>::Real;
    auto A = rand_herm<S>(r, n, density, 0.0);
    for (int j = 0; j < n; j++)
    {
        R s = 0;
        for (int i = 0; i < n; i++) if (i != j) s += std::abs(A(i, j));
        A(j, j) = S(s + R(0.5) + R(r.uni()));
    }
    return A;
}


// Presentations of one and the same matrix (the quantifier of C11 names "plain objects, blocks, maps or expressions"): fn(ref, name) is called with an
// Eigen::Ref bound in place to a block of a larger matrix, to a Map with an outer stride, to a contiguous Map, and to an expression (the Ref then owns a
// temporary). The surroundings of the block / the padding of the strided map hold the value 7, so a wrapper that addresses the data with the wrong
// leading dimension computes with numbers that are not in the matrix.
template <class S, int Flags, class Fn>
void with_presentations(const Eigen::Matrix<S, Eigen::Dynamic, Eigen::Dynamic, Flags>& P, Fn fn)
{
    using PM = Eigen::Matrix<S, Eigen::Dynamic, Eigen::Dynamic, Flags>;
    const Eigen::Index n = P.rows(), m = P.cols();
    {
        PM big = PM::Constant(n + 3, m + 2, S(7));
        big.block(2, 1, n, m) = P;
        Eigen::Ref<const PM> ref(big.block(2, 1, n, m));
        fn(ref, "block");
    }
    {
        const bool rowmajor = (Flags & Eigen::RowMajorBit) != 0;
        const Eigen::Index inner = rowmajor ? m : n, outer = rowmajor ? n : m, os = inner + 5;
        std::vector<S> buf((size_t) (os * outer + 3), S(7));
        Eigen::Map<PM, 0, Eigen::OuterStride<>> mp(buf.data() + 3, n, m, Eigen::OuterStride<>(os));
        mp = P;
        Eigen::Ref<const PM> ref(mp);
        fn(ref, "strided-map");
    }
    {
        std::vector<S> buf((size_t) (n * m) + 1);
        Eigen::Map<PM> mp(buf.data(), n, m);
        mp = P;
        Eigen::Ref<const PM> ref(mp);
        fn(ref, "map");
    }
    {
        const PM Z = PM::Zero(n, m);
        Eigen::Ref<const PM> ref(P + Z);
        fn(ref, "expression");
    }
    // The same objects handed to the wrapper's constructor AS THEY ARE (not through a Ref of the caller): now the wrapper's own Ref member has to bind in place
    // (block, strided map) or to evaluate and OWN a copy (expression, map with an inner stride) that must live as long as the wrapper does.  The temporaries die when
    // fn returns; the wrapper is built and used inside fn.
    {
        PM big = PM::Constant(n + 3, m + 2, S(7));
        big.block(2, 1, n, m) = P;
        fn(big.block(2, 1, n, m), "block/direct");
    }
    {
        const bool rowmajor = (Flags & Eigen::RowMajorBit) != 0;
        const Eigen::Index inner = rowmajor ? m : n, outer = rowmajor ? n : m, os = 2 * inner + 5;
        std::vector<S> buf((size_t) (os * outer + 3), S(7));
        Eigen::Map<PM, 0, Eigen::Stride<Eigen::Dynamic, 2>> mp(buf.data() + 3, n, m, Eigen::Stride<Eigen::Dynamic, 2>(os, 2));
        mp = P;
        fn(mp, "map-with-inner-stride/direct");
    }
    {
        const PM Z = PM::Zero(n, m);
        fn(P + Z, "expression/direct");
        fn(S(2) * P - P, "expression-2/direct");
    }
}
// sparse: uncompressed storage (free slots after every inner vector), a Map of the compressed arrays, an inner panel of a wider matrix, an expression
template <class S, int Flags, class SI, class Fn>
void with_presentations(const Eigen::SparseMatrix<S, Flags, SI>& P, Fn fn)
{
    using SM = Eigen::SparseMatrix<S, Flags, SI>;
    const Eigen::Index n = P.rows(), m = P.cols();
    {
        SM U = P;
        U.reserve(Eigen::Matrix<SI, Eigen::Dynamic, 1>::Constant(U.outerSize(), SI(2)));
        Eigen::Ref<const SM> ref(U);
        fn(ref, U.isCompressed() ? "compressed-copy" : "uncompressed");
    }
    {
        Eigen::Map<const SM> mp(n, m, P.nonZeros(), P.outerIndexPtr(), P.innerIndexPtr(), P.valuePtr());
        Eigen::Ref<const SM> ref(mp);
        fn(ref, "map");
    }
    {
        const bool rowmajor = (Flags & Eigen::RowMajorBit) != 0;
        std::vector<Eigen::Triplet<S, SI>> tr;
        for (Eigen::Index k = 0; k < P.outerSize(); k++)
            for (typename SM::InnerIterator it(P, k); it; ++it)
                tr.emplace_back((SI) (it.row() + (rowmajor ? 2 : 0)), (SI) (it.col() + (rowmajor ? 0 : 2)), it.value());
        const Eigen::Index inner = rowmajor ? m : n;
        for (Eigen::Index i = 0; i < inner; i++)
        {
            // the outer vectors around the panel are full of 7s
            for (Eigen::Index o : {Eigen::Index(0), Eigen::Index(1), P.outerSize() + 2})
                tr.emplace_back((SI) (rowmajor ? o : i), (SI) (rowmajor ? i : o), S(7));
        }
        SM W(rowmajor ? n + 3 : n, rowmajor ? m : m + 3);
        W.setFromTriplets(tr.begin(), tr.end());
        W.makeCompressed();
        if (rowmajor) { Eigen::Ref<const SM> ref(W.middleRows(2, n)); fn(ref, "inner-panel"); }
        else { Eigen::Ref<const SM> ref(W.middleCols(2, m)); fn(ref, "inner-panel"); }
    }
    {
        Eigen::Ref<const SM> ref(P * S(1));
        fn(ref, "expression");
    }
    // handed over as they are (see the dense overload): the wrapper's own Ref member evaluates and owns the copy
    {
        fn(P * S(1), "expression/direct");
        SM U = P;
        U.reserve(Eigen::Matrix<SI, Eigen::Dynamic, 1>::Constant(U.outerSize(), SI(2)));
        fn(U, U.isCompressed() ? "compressed-copy/direct" : "uncompressed/direct");
    }
}


// Well-conditioned inputs on which elimination WITHOUT pivoting fails: class 1 = zero diagonal, O(1) couplings along a path, shift of size 1e-8..1e-12 (the
// shifted diagonal is tiny but not zero); class 2 = constant diagonal d and a shift d(1 - 1e-11). Class 0 leaves the input alone. Returns the class.
template <class S, class Real>
int hostile_shift_class(vf::Rng& r, Eigen::Matrix<S, Eigen::Dynamic, Eigen::Dynamic>& F, Real& sigma, bool hermitian)
{
    const int n = (int) F.rows();
    const int cls = n < 2 ? 0 : (r.coin(0.5) ? 0 : (int) r.range(1, 2));
    if (cls == 0) return 0;
    for (int i = 0; i + 1 < n; i++)
    {
        F(i + 1, i) = S(1);
        F(i, i + 1) = hermitian ? S(1) : S(Real(0.5) + Real(r.uni()));
    }
    if (cls == 1)
    {
        F.diagonal().setZero();
        sigma = Real((r.coin() ? 1 : -1) * std::pow(10.0, -(double) r.range(8, 12)));
    }
    else
    {
        const Real d = Real(r.coin() ? 1.0 : -2.5);
        F.diagonal().setConstant(S(d));
        sigma = d * (Real(1) - Real(1e-11));
    }
    return cls;
}

// the value bytes of a vector (x87 long double: 10 significant bytes per real component; the 6 padding bytes are defined by no store)
template <class V> std::vector<unsigned char> bytes_of(const V& v)
{
    using S = typename V::Scalar;
    using R = typename Eigen::NumTraits<S>::Real;
    const size_t sig = (std::is_same<R, long double>::value && sizeof(long double) == 16) ? 10 : sizeof(R);
    const size_t nreal = sizeof(S) / sizeof(R) * (size_t) v.size();
    const unsigned char* p = (const unsigned char*) v.data();
    std::vector<unsigned char> out;
    out.reserve(nreal * sig);
    for (size_t i = 0; i < nreal; i++) out.insert(out.end(), p + i * sizeof(R), p + i * sizeof(R) + sig);
    return out;
}

}  // namespace vwg
