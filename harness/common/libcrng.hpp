// Interposed libc generators (C06, C20): see the comment below.  Include in exactly one translation unit of a driver.
#pragma once
#include <atomic>
#include <cstdlib>

// The C library's process-wide generators, interposed: the executable's own definitions win over libc's for every call compiled into it (Eigen's
// setRandom() / Random() end in std::rand()).  A library that draws from them shares hidden mutable state between all solvers of the process - with glibc's lock
// around it, so ThreadSanitizer has nothing to report - and what a solver gets depends on what the other threads drew first.  The library never calls them on the
// unchanged tree and neither does this harness, so one call is a finding; the stand-in generator hands out a shared sequence, as libc would.
static std::atomic<long> g_libc_rng_calls{0};
static std::atomic<unsigned> g_libc_rng_state{12345u};
static int libc_rng_next() { g_libc_rng_calls++; unsigned x = g_libc_rng_state.load(); x = x * 1103515245u + 12345u; g_libc_rng_state.store(x); return (int) ((x >> 16) & 0x7fff); }
extern "C" {
int rand(void) noexcept { return libc_rng_next(); }
long random(void) noexcept { return libc_rng_next(); }
long lrand48(void) noexcept { return libc_rng_next(); }
long mrand48(void) noexcept { return libc_rng_next(); }
double drand48(void) noexcept { return libc_rng_next() / 32768.0; }
void srand(unsigned) noexcept { g_libc_rng_calls++; }
void srandom(unsigned) noexcept { g_libc_rng_calls++; }
}
