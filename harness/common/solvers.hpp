// Shared pieces for the solver-level drivers (C01-C06, C13, C14, C20): rule tables, snapshots, reference data.
#pragma once
#include <Eigen/Dense>
#include <Eigen/Sparse>
#include <Eigen/Eigenvalues>
#include <complex>
#include <string>
#include <vector>
#include <cstring>
#include "framework.hpp"
#include "oracle.hpp"
#include <Spectra/Util/SelectionRule.h>
#include <Spectra/Util/CompInfo.h>

namespace vs {
using Spectra::SortRule;
using Spectra::CompInfo;
using vo::LD;
using vo::CLD;
using vo::MatCLD;
using vo::VecCLD;

inline const char* rule_name(SortRule r)
{
    switch (r)
    {
        case SortRule::LargestMagn: return "LargestMagn";
        case SortRule::LargestReal: return "LargestReal";
        case SortRule::LargestImag: return "LargestImag";
        case SortRule::LargestAlge: return "LargestAlge";
        case SortRule::SmallestMagn: return "SmallestMagn";
        case SortRule::SmallestReal: return "SmallestReal";
        case SortRule::SmallestImag: return "SmallestImag";
        case SortRule::SmallestAlge: return "SmallestAlge";
        default: return "BothEnds";
    }
}
inline const char* info_name(CompInfo i)
{
    return i == CompInfo::Successful ? "Successful" : i == CompInfo::NotComputed ? "NotComputed" : i == CompInfo::NotConverging ? "NotConverging" : "NumericalIssue";
}
static const SortRule ALL_RULES[9] = {SortRule::LargestMagn, SortRule::LargestReal, SortRule::LargestImag, SortRule::LargestAlge,
                                      SortRule::SmallestMagn, SortRule::SmallestReal, SortRule::SmallestImag, SortRule::SmallestAlge, SortRule::BothEnds};
static const std::vector<SortRule> SYM_SELECT = {SortRule::LargestMagn, SortRule::LargestAlge, SortRule::SmallestMagn, SortRule::SmallestAlge, SortRule::BothEnds};
static const std::vector<SortRule> SYM_SORT = {SortRule::LargestAlge, SortRule::LargestMagn, SortRule::SmallestAlge, SortRule::SmallestMagn};
static const std::vector<SortRule> GEN_SELECT = {SortRule::LargestMagn, SortRule::LargestReal, SortRule::LargestImag, SortRule::SmallestMagn, SortRule::SmallestReal, SortRule::SmallestImag};

// key of a sorting rule applied to a (possibly complex) value; `desc` = descending order expected
inline LD sort_key(SortRule r, CLD v, bool& desc)
{
    switch (r)
    {
        case SortRule::LargestMagn: desc = true; return std::abs(v);
        case SortRule::LargestReal: case SortRule::LargestAlge: case SortRule::BothEnds: desc = true; return v.real();
        case SortRule::LargestImag: desc = true; return std::abs(v.imag());
        case SortRule::SmallestMagn: desc = false; return std::abs(v);
        case SortRule::SmallestReal: case SortRule::SmallestAlge: desc = false; return v.real();
        default: desc = false; return std::abs(v.imag());
    }
}

// raw bytes of the public results of a solver (C06 / C14 / C20 compare these bitwise)
struct Snapshot
{
    long ret = -1, niter = -1, nops = -1;
    int info = -1;
    std::vector<unsigned char> evals, evecs;
    long evec_rows = 0, evec_cols = 0;
    bool operator==(const Snapshot& o) const
    {
        return ret == o.ret && niter == o.niter && nops == o.nops && info == o.info && evals == o.evals && evecs == o.evecs &&
            evec_rows == o.evec_rows && evec_cols == o.evec_cols;
    }
    std::string diff(const Snapshot& o) const
    {
        std::string d;
        if (ret != o.ret) d += "ret ";
        if (niter != o.niter) d += "num_iterations ";
        if (nops != o.nops) d += "num_operations ";
        if (info != o.info) d += "info ";
        if (evals != o.evals) d += "eigenvalues ";
        if (evecs != o.evecs || evec_rows != o.evec_rows || evec_cols != o.evec_cols) d += "eigenvectors ";
        return d;
    }
};
template <class Solver>
Snapshot snapshot(const Solver& es, long ret)
{
    Snapshot s;
    s.ret = ret;
    s.niter = (long) es.num_iterations();
    s.nops = (long) es.num_operations();
    s.info = (int) es.info();
    auto ev = es.eigenvalues();
    auto U = es.eigenvectors();
    s.evals.resize(sizeof(typename decltype(ev)::Scalar) * (size_t) ev.size());
    if (ev.size()) std::memcpy(s.evals.data(), ev.data(), s.evals.size());
    s.evecs.resize(sizeof(typename decltype(U)::Scalar) * (size_t) U.size());
    if (U.size()) std::memcpy(s.evecs.data(), U.data(), s.evecs.size());
    s.evec_rows = (long) U.rows();
    s.evec_cols = (long) U.cols();
    return s;
}

template <class T> struct TolSet
{
    // tolerances from a few eps upward, expressed per scalar type
    static std::vector<typename Eigen::NumTraits<T>::Real> get()
    {
        using R = typename Eigen::NumTraits<T>::Real;
        const R u = std::numeric_limits<R>::epsilon();
        // (the first-order back-transformation bounds of the shift modes are only meaningful for tol << 1: nothing above 1e-3)
        return {R(4) * u, R(100) * u, R(1e4) * u, std::min(R(1e6) * u, R(1e-4)), std::sqrt(u), R(1e-3)};
    }
};

}  // namespace vs
