// Operator wrapper: sits between a Spectra solver and the user's operator. Counts applications, validates the buffers the
// library hands over, can inject a fault at a chosen application, enforces the work bound, and can yield between applications.
#pragma once
#include <cstdint>
#include <cstring>
#include <cmath>
#include <complex>
#include <exception>
#include <functional>
#include <limits>
#include <string>
#include <utility>

#if defined(__has_feature)
#if __has_feature(address_sanitizer)
#define VF_HAVE_ASAN 1
#endif
#endif
#if defined(__SANITIZE_ADDRESS__)
#define VF_HAVE_ASAN 1
#endif
#ifdef VF_HAVE_ASAN
extern "C" void* __asan_region_is_poisoned(void* beg, size_t size);
#endif

namespace vw {

// private exception types: never thrown by the library itself
struct InjectedFault : public std::exception
{
    long token;
    explicit InjectedFault(long t) : token(t) {}
    const char* what() const noexcept override { return "vf injected operator fault"; }
};
// user code may throw anything: a plain struct and a bare enum value, neither derived from std::exception
struct PlainFault { long token; };
enum class FaultCode : long {};
struct WorkBoundExceeded : public std::exception
{
    long count;
    explicit WorkBoundExceeded(long c) : count(c) {}
    const char* what() const noexcept override { return "vf work bound exceeded"; }
};

struct OpCtl
{
    long count = 0;          // applications since reset()
    long total = 0;          // applications over the object's life
    long fault_at = -1;      // throw InjectedFault at this application index (1-based), -1 = never
    long fault_token = 0;
    int fault_kind = 0;      // 0: InjectedFault (derived from std::exception), 1: PlainFault, 2: FaultCode
    long limit = -1;         // throw WorkBoundExceeded when count passes it, -1 = unlimited
    bool validate = true;    // check the pointers handed over by the library
    bool poison_out = true;  // fill y_out with NaN before delegating
    std::string bad;         // first validation failure (empty = none)
    long set_shift_calls = 0;
    long count_at_last_set_shift = 0;
    // shift bookkeeping: applications performed while the operator is NOT at the shift installed first (at construction)
    // are post-processing (the complex-shift solver's probe), not part of the counted iteration
    double home_sig = 0, cur_sig = 0;
    bool have_home = false;
    long away_count = 0;     // applications at a foreign shift since reset()
    std::function<void(long)> between;  // called before each application (schedule perturbation)

    void reset() { count = 0; away_count = 0; bad.clear(); }
    long iteration_count() const { return count - away_count; }
    void note_shift(double sig)
    {
        set_shift_calls++;
        count_at_last_set_shift = count;
        if (!have_home) { home_sig = sig; have_home = true; }
        cur_sig = sig;
    }
    long garbage_at = -1;    // at this application the operator "succeeds" but hands back NaN in every component (a transient defect of the user's operator), -1 = never
    void arm(long k, long token, int kind = 0) { fault_at = k; fault_token = token; fault_kind = kind; }
    void disarm() { fault_at = -1; garbage_at = -1; }
    template <class Scalar>
    void after(Scalar* y, long n)
    {
        if (garbage_at >= 0 && count == garbage_at && y)
        {
            using Real = decltype(std::abs(Scalar()));
            const Scalar nan = Scalar(std::numeric_limits<Real>::quiet_NaN());
            for (long i = 0; i < n; i++) y[i] = nan;
        }
    }

    template <class Scalar>
    void before(const Scalar* x, Scalar* y, long n)
    {
        ++count;
        ++total;
        if (have_home && cur_sig != home_sig) ++away_count;
        if (validate && bad.empty())
        {
            if (!x || !y) bad = "null pointer";
            else if ((const void*) x == (const void*) y) bad = "x_in == y_out";
            else
            {
                const char* xb = (const char*) x; const char* yb = (const char*) y;
                const size_t len = (size_t) n * sizeof(Scalar);
                if ((xb < yb + len) && (yb < xb + len)) bad = "x_in and y_out overlap";
#ifdef VF_HAVE_ASAN
                else if (__asan_region_is_poisoned((void*) x, len)) bad = "x_in not fully addressable";
                else if (__asan_region_is_poisoned((void*) y, len)) bad = "y_out not fully addressable";
#endif
            }
        }
        if (between) between(count);
        if (limit >= 0 && count > limit) throw WorkBoundExceeded(count);
        if (fault_at >= 0 && count == fault_at)
        {
            if (fault_kind == 1) throw PlainFault{fault_token};
            if (fault_kind == 2) throw FaultCode(fault_token);
            throw InjectedFault(fault_token);
        }
        if (poison_out && y)
        {
            using Real = decltype(std::abs(Scalar()));
            const Scalar nan = Scalar(std::numeric_limits<Real>::quiet_NaN());
            for (long i = 0; i < n; i++) y[i] = nan;
        }
    }
};

// Wrap<Op>: derives from the real operator, hides the application entry points.
template <class Op>
struct Wrap : public Op
{
    using Scalar = typename Op::Scalar;
    OpCtl* ctl;
    template <class... A>
    explicit Wrap(OpCtl* c, A&&... a) : Op(std::forward<A>(a)...), ctl(c) {}

    void perform_op(const Scalar* x, Scalar* y) const
    {
        ctl->before(x, y, (long) this->rows());
        Op::perform_op(x, y);
        ctl->after(y, (long) this->rows());
    }
    // B-operator entry points of the generalized solvers
    template <class S = Scalar>
    void solve(const S* x, S* y) const
    {
        ctl->before(x, y, (long) this->rows());
        Op::solve(x, y);
        ctl->after(y, (long) this->rows());
    }
    template <class S = Scalar>
    void lower_triangular_solve(const S* x, S* y) const
    {
        ctl->before(x, y, (long) this->rows());
        Op::lower_triangular_solve(x, y);
        ctl->after(y, (long) this->rows());
    }
    template <class S = Scalar>
    void upper_triangular_solve(const S* x, S* y) const
    {
        ctl->before(x, y, (long) this->rows());
        Op::upper_triangular_solve(x, y);
        ctl->after(y, (long) this->rows());
    }
    template <class... A>
    void set_shift(A&&... a)
    {
        double sig = 0.0, w = 1.0;
        const double vals[] = {(double) a...};
        for (double v : vals) { sig += w * v; w *= 1.618033988749895; }
        ctl->note_shift(sig);
        Op::set_shift(std::forward<A>(a)...);
    }
};

}  // namespace vw
