// Sink of the guarded iteration-limit failpoint in TridiagEigen.h / UpperHessenbergSchur.h (hook SPECTRA_VERIF_ITER_LIMIT). Include BEFORE any Spectra header.
// The library asks "what is my iteration limit?" once per Schur decomposition and once per tridiagonal QR sweep; the harness can answer 0 at the k-th
// question of a run, which makes that decomposition give up ("did not converge") on an ordinary input. Unarmed, the library's own limit is returned.
#pragma once
namespace vfk {
struct State { long asked = 0, fail_at = -1, hits = 0; };
inline State& st() { static thread_local State s; return s; }
template <class I>
inline I limit(const char*, I dflt)
{
    State& s = st();
    s.asked++;
    if (s.asked == s.fail_at) { s.hits++; return I(0); }
    return dflt;
}
inline void arm(long k) { State& s = st(); s.asked = 0; s.fail_at = k; s.hits = 0; }
inline long disarm() { State& s = st(); s.fail_at = -1; return s.hits; }
}  // namespace vfk
#define SPECTRA_VERIF_ITER_LIMIT(who, dflt) (::vfk::limit(who, dflt))
