// C04 - when a solver reports Successful, the k returned eigenvalues are the k the selection rule names, for spectra whose wanted part is
// simple and separated from the rest by a gap in the rule's key. One solver group per build (-DZOO_GROUP=0|1|2); plain build (numeric volume;
// the same code paths run under ASan in C01-C03).
#define VF_MAIN
#include "common/fachook.hpp"
#include "common/framework.hpp"
#include "common/zoo.hpp"
#include <iostream>

using T = double;
using namespace vz;
using namespace vo;
const char* vf_driver() { return "c04_select"; }

// key of a selection rule on a (possibly complex) value, "larger = more wanted"
static LD want_key(SortRule r, std::complex<LD> v)
{
    switch (r)
    {
        case SortRule::LargestMagn: return std::abs(v);
        case SortRule::LargestReal: case SortRule::LargestAlge: return v.real();
        case SortRule::LargestImag: return std::abs(v.imag());
        case SortRule::SmallestMagn: return -std::abs(v);
        case SortRule::SmallestReal: case SortRule::SmallestAlge: return -v.real();
        case SortRule::SmallestImag: return -std::abs(v.imag());
        default: return v.real();
    }
}

// spectrum lambda of the user's problem -> spectrum nu the rule acts on
static std::complex<LD> iterated(int family, std::complex<LD> lam, LD sr, LD si)
{
    switch (family)
    {
        case 3: case 4: case 7: case 8: case 14: return LD(1) / (lam - sr);
        case 9: case 10: { const std::complex<LD> z = lam - sr; return z / (z * z + si * si); }
        case 15: return lam / (lam - sr);
        case 16: return (lam + sr) / (lam - sr);
        default: return lam;
    }
}

struct Spec
{
    std::vector<std::complex<LD>> lam;   // spectrum of the user's problem (by construction)
    std::vector<int> wanted;             // indices the rule names
    LD gap = 0;                          // smallest key distance between a wanted and an unwanted value, relative to the key spread
    bool interior = false;               // wanted keys not at an end of the iterated spectrum (real spectra)
};

// indices of the k values the rule names; for BothEnds ceil(k/2) largest + floor(k/2) smallest
static bool pick_wanted(SortRule rule, const std::vector<std::complex<LD>>& nu, int k, Spec& s)
{
    const int n = (int) nu.size();
    std::vector<int> ord(n);
    for (int i = 0; i < n; i++) ord[i] = i;
    const SortRule base = rule == SortRule::BothEnds ? SortRule::LargestAlge : rule;
    std::sort(ord.begin(), ord.end(), [&](int a, int b) { return want_key(base, nu[a]) > want_key(base, nu[b]); });
    s.wanted.clear();
    const LD spread = want_key(base, nu[ord[0]]) - want_key(base, nu[ord[n - 1]]);
    if (!(spread > 0)) return false;
    if (rule == SortRule::BothEnds)
    {
        const int hi = (k + 1) / 2, lo = k / 2;
        for (int i = 0; i < hi; i++) s.wanted.push_back(ord[i]);
        for (int i = 0; i < lo; i++) s.wanted.push_back(ord[n - 1 - i]);
        LD g = want_key(base, nu[ord[hi - 1]]) - want_key(base, nu[ord[hi]]);
        if (lo > 0) g = std::min(g, want_key(base, nu[ord[n - 1 - lo]]) - want_key(base, nu[ord[n - lo]]));
        s.gap = g / spread;
    }
    else
    {
        for (int i = 0; i < k; i++) s.wanted.push_back(ord[i]);
        s.gap = (want_key(base, nu[ord[k - 1]]) - want_key(base, nu[ord[k]])) / spread;
    }
    return true;
}

template <class Fac>
static void run_case(vf::Ctx& ctx, const Fac& fac, const Spec& sp, SortRule rule, const std::string& tag, const std::string& cls, bool strict)
{
    const auto& d = fac.d;
    std::unique_ptr<typename Fac::Ops> ops;
    std::unique_ptr<typename Fac::Solver> es;
    try { ops = fac.make_ops(); es = fac.make_solver(*ops); }
    catch (const std::exception&) { ctx.count("operator_refused_input"); ctx.count("evals"); return; }
    const long maxit = ctx.thorough && tag.empty() ? 1000 : 300;   // corpus cases are the same in both tiers
    long ret = -1;
    try { es->init(); ret = (long) es->compute(rule, maxit, T(1e-10), fac.sort_rules()[0]); }
    catch (const std::exception&) { ctx.count("compute_exception"); ctx.count("evals"); return; }
    ctx.count("evals");
    ctx.count("class/" + cls);
    // judge(rule, spec, phase, strict): both oracles on the state the solver is in now
    auto judge = [&](SortRule rule, const Spec& sp, const std::string& phase, bool strict) {
    auto ev = es->eigenvalues();
    const SortRule base = rule == SortRule::BothEnds ? SortRule::LargestAlge : rule;
    // ---- oracle 1 (every run, every outcome): the returned values are the rule's choice among the Ritz values of the final factorization.
    // This is what the selection logic guarantees deterministically; a wrong key, a wrong BothEnds split or sorting lambda instead of nu breaks it.
    {
        auto& facr = SpectraVerifAccess::fac(*es);
        const auto& Hm = facr.matrix_H();
        const int m = (int) Hm.rows();
        std::vector<std::complex<LD>> ritz(m);
        bool okH = all_finite(Hm);
        if (okH)
        {
            if (Fac::is_gen)
            {
                Eigen::EigenSolver<Eigen::MatrixXd> eh(Eigen::MatrixXd(Hm.real()), false);
                for (int i = 0; i < m; i++) ritz[i] = std::complex<LD>(eh.eigenvalues()[i]);
            }
            else
            {
                Eigen::MatrixXd Hs = Hm.real();
                Hs = (Hs + Hs.transpose()) / 2;
                Eigen::SelfAdjointEigenSolver<Eigen::MatrixXd> eh(Hs, Eigen::EigenvaluesOnly);
                for (int i = 0; i < m; i++) ritz[i] = std::complex<LD>((LD) eh.eigenvalues()[i], 0);
            }
            Spec rs;
            if (pick_wanted(rule, ritz, d.nev, rs))
            {
                std::vector<LD> top, got, allk;
                for (int i : rs.wanted) top.push_back(want_key(base, ritz[i]));
                for (auto& z : ritz) allk.push_back(want_key(base, z));
                const LD spreadH = std::max<LD>(*std::max_element(allk.begin(), allk.end()) - *std::min_element(allk.begin(), allk.end()), 1e-300L);
                LD worstk = 0;
                for (long i = 0; i < (long) ev.size(); i++)
                {
                    const LD kq = want_key(base, iterated(d.family, std::complex<LD>(ev[i]), (LD) d.sigma, (LD) d.sigmai));
                    LD best = std::numeric_limits<LD>::infinity();
                    for (LD t : top) best = std::min(best, std::abs(t - kq));
                    worstk = std::max(worstk, best / spreadH);
                }
                ctx.count("ritz_selection_checks");
                if (!vo::within(ctx, "returned-vs-top-ritz-keys", worstk, 1e-7L))
                {
                    auto j = vf::J().kv("solver", FAMILY[d.family]).kv("rule", rule_name(rule)).kv("class", cls).kv("n", d.n).kv("nev", d.nev).kv("ncv", d.ncv).kv("sigma", (double) d.sigma).kv("scale", d.scale)
                                 .kv("info", info_name(es->info())).kv("returned", (long) ev.size()).kv("worst_key_distance_rel", worstk);
                    {
                        std::string a, b, c;
                        char buf[64];
                        std::vector<LD> ts = top; std::sort(ts.begin(), ts.end());
                        for (LD t : ts) { snprintf(buf, sizeof buf, "%.10Lg ", t); a += buf; }
                        for (long i = 0; i < (long) ev.size(); i++) { const auto z = iterated(d.family, std::complex<LD>(ev[i]), (LD) d.sigma, (LD) d.sigmai); snprintf(buf, sizeof buf, "%.10Lg ", want_key(base, z)); b += buf; snprintf(buf, sizeof buf, "(%.8g,%.8g) ", (double) std::complex<double>(ev[i]).real(), (double) std::complex<double>(ev[i]).imag()); c += buf; }
                        j.kv("top_ritz_keys", a).kv("returned_keys", b).kv("returned_values", c).kv("sigmai", (double) d.sigmai).kv("num_iterations", (long) es->num_iterations());
                    }
                    ctx.violation((tag.empty() ? std::string(FAMILY[d.family]) + "/" + rule_name(rule) : tag) + "/returned-value-not-among-the-rule's-top-Ritz-values" + phase, j.kv("phase", phase.empty() ? "init();compute(rule)" : phase).str());
                }
            }
        }
    }
    if (es->info() != CompInfo::Successful) { ctx.count("not_successful" + phase); if (phase.empty()) ctx.count("inconclusive_class/" + cls); return; }
    ctx.count("successful_runs" + phase);
    // ---- oracle 2 (Successful runs): the returned set is the rule's top-k of the spectrum. Sharp when ncv = n (every Ritz value is an eigenvalue);
    // elsewhere implicit restart with early stopping can miss a wanted eigenvalue sporadically - counted here, judged in the fixed corpus.
    std::vector<LD> got, want, allk;
    for (long i = 0; i < (long) ev.size(); i++) got.push_back(want_key(base, iterated(d.family, std::complex<LD>(ev[i]), (LD) d.sigma, (LD) d.sigmai)));
    for (int i : sp.wanted) want.push_back(want_key(base, iterated(d.family, sp.lam[i], (LD) d.sigma, (LD) d.sigmai)));
    for (auto& l : sp.lam) allk.push_back(want_key(base, iterated(d.family, l, (LD) d.sigma, (LD) d.sigmai)));
    std::sort(got.begin(), got.end());
    std::sort(want.begin(), want.end());
    const LD spread = *std::max_element(allk.begin(), allk.end()) - *std::min_element(allk.begin(), allk.end());
    bool ok = got.size() == want.size();
    LD worst = 0;
    for (size_t i = 0; ok && i < got.size(); i++) { worst = std::max(worst, std::abs(got[i] - want[i]) / spread); }
    const bool miss = !ok || worst > sp.gap / 4;
    if (strict || (!tag.empty() && (phase.empty() || sp.gap >= 0.005)))
    {
        if (ok) ctx.maxratio(tag.empty() ? "key-mismatch/gap (ncv=n)" : "corpus:key-mismatch/gap", worst / (sp.gap / 4));
        if (miss)
        {
            auto j = vf::J().kv("solver", FAMILY[d.family]).kv("rule", rule_name(rule)).kv("class", cls).kv("n", d.n).kv("nev", d.nev).kv("ncv", d.ncv).kv("sigma", (double) d.sigma).kv("scale", d.scale)
                         .kv("gap_rel", sp.gap).kv("returned", (long) ev.size()).kv("worst_key_error_rel", worst).kv("restarts", (long) es->num_iterations() - 1);
            ctx.violation(tag.empty() ? std::string(FAMILY[d.family]) + "/" + rule_name(rule) + "/wrong-set" + phase : tag + "/wrong-set" + phase, j.kv("phase", phase.empty() ? "init();compute(rule)" : phase).str());
        }
    }
    else if (miss && phase.empty()) ctx.count("early_stop_miss_observed/" + cls.substr(0, cls.rfind('/')));
    };
    judge(rule, sp, "", strict);
    // ---- the same solver object asked again, without init(), for a different rule: what it reports then must be what the new rule names
    // (a result cached from the earlier call must not be handed back). Exploration cases only: the fixed corpus stays as it is.
    // Judged in the exploration when the first call ended Successful (a sound factorization to continue from); after a NotConverging first call the
    // factorization may already have lost orthogonality (recorded defect, DESIGN.md 4.2) - those continuations are judged on the fixed corpus only.
    const bool first_ok = es->info() == CompInfo::Successful;
    if (ctx.rng.coin(0.5) && (first_ok || !tag.empty()))
    {
        const auto& rules = Fac::is_gen ? GEN_SELECT : SYM_SELECT;
        SortRule rule2 = ctx.rng.pick(rules);
        if (rule2 == rule) rule2 = rules[(size_t) ((std::find(rules.begin(), rules.end(), rule) - rules.begin() + 1) % rules.size())];
        Spec sp2;
        std::vector<std::complex<LD>> nu(sp.lam.size());
        for (size_t q = 0; q < nu.size(); q++) nu[q] = iterated(d.family, sp.lam[q], (LD) d.sigma, (LD) d.sigmai);
        const bool have = pick_wanted(rule2, nu, d.nev, sp2);
        sp2.lam = sp.lam;
        bool threw = false;
        if (getenv("C04_DEBUG"))
        {
            std::cerr.precision(12);
            { LD md = 1e9; for (auto& l : sp.lam) md = std::min(md, std::abs(l - std::complex<LD>((LD) d.sigma, (LD) d.sigmai))); std::cerr << "n " << d.n << " nev " << d.nev << " ncv " << d.ncv << " sigma " << d.sigma << " " << d.sigmai << " min|lam-sigma| " << (double) md << "\n"; }
            std::cerr << "first: info " << info_name(es->info()) << " it " << es->num_iterations() << " ev " << es->eigenvalues().transpose() << "\nH ritz before second:\n";
            Eigen::EigenSolver<Eigen::MatrixXd> eh(Eigen::MatrixXd(SpectraVerifAccess::fac(*es).matrix_H().real()), false);
            std::cerr << eh.eigenvalues().transpose() << "\nfnorm " << SpectraVerifAccess::fac(*es).f_norm() << "\n";
        }
        try { (void) es->compute(rule2, maxit, T(1e-10), fac.sort_rules()[0]); }
        catch (const std::exception&) { threw = true; ctx.count("compute_exception/second-compute"); }
        if (!threw)
        {
            ctx.count("second_compute_other_rule");
            if (getenv("C04_DEBUG"))
            {
                std::cerr << "second: info " << info_name(es->info()) << " it " << es->num_iterations() << " ev " << es->eigenvalues().transpose() << "\nH ritz after second:\n";
                Eigen::EigenSolver<Eigen::MatrixXd> eh(Eigen::MatrixXd(SpectraVerifAccess::fac(*es).matrix_H().real()), false);
                std::cerr << eh.eigenvalues().transpose() << "\nfnorm " << SpectraVerifAccess::fac(*es).f_norm() << "\n";
            }
            judge(rule2, sp2, "/second-compute-other-rule", strict && first_ok && have && sp2.gap >= 0.005);
        }
    }
    if (es->num_iterations() > 1) ctx.nontriv(std::string(FSHORT[d.family]) + "/" + rule_name(rule) + "/" + std::to_string(d.n) + "/" + std::to_string(d.nev) + "/" + std::to_string(d.ncv) + "/" + std::to_string((double) sp.lam[0].real()));
    if (ctx.want_sample) ctx.set_sample(vf::J().kv("solver", FAMILY[d.family]).kv("rule", rule_name(rule)).kv("class", cls).kv("n", d.n).kv("nev", d.nev).kv("ncv", d.ncv).kv("gap_rel", sp.gap).kv("info", info_name(es->info())).kv("restarts", (long) es->num_iterations() - 1).str());
}

static long n_explore(const vf::Ctx& ctx) { return ctx.thorough ? 60000 : 5000; }
static long n_corpus() { return 150; }
// second corpus part: the same construction with everything (spectrum, shifts) multiplied by 1e-12..1e-4 or 1e4..1e8 - every oracle here is relative to the
// key spread, so the statement is the same; what changes is the absolute size of the residuals that the library compares with absolute thresholds (section 4.2)
static long n_corpus_scaled() { return 204; }
long vf_ncases(const vf::Ctx& ctx) { return n_explore(ctx) + n_corpus() + n_corpus_scaled(); }

void vf_run_case(vf::Ctx& ctx, long idx)
{
    auto& r = ctx.rng;
    const auto fams = compiled_families();
    const bool corpus = idx >= n_explore(ctx);
    const bool scaled = idx >= n_explore(ctx) + n_corpus();
    const long ci = scaled ? idx - n_explore(ctx) - n_corpus() : idx - n_explore(ctx);
    const int f = fams[(size_t) ((corpus ? ci : idx) % (long) fams.size())];
    std::string tag;
    if (corpus) { ctx.case_rng(scaled ? "c04_corpus_scaled" : "c04_corpus", ci, true); tag = std::string(scaled ? "corpus/scaled/" : "corpus/") + FSHORT[f] + "/" + std::to_string(ci); ctx.set_tag(tag); }
    const double scale = scaled ? std::pow(10.0, (double) (r.coin(0.65) ? -r.range(4, 12) : r.range(4, 8))) : 1.0;
    const bool gen = family_is_gen(f);
    Data<T> d;
    d.family = f;
    // the room class: tight (< 10), medium (10..19), roomy (>= 20) or full (ncv = n)
    const int roomk = scaled ? (r.coin(0.6) ? 3 : (int) r.range(0, 2)) : (corpus ? (int) r.range(0, 2) : (r.coin(0.45) ? 3 : (int) r.range(0, 2)));
    d.nev = (int) r.range(1, 5);
    const int base = 2 * d.nev + 1 + (gen ? 1 : 0);
    int room = roomk == 0 ? (int) r.range(0, 9) : (roomk == 1 ? (int) r.range(10, 19) : (int) r.range(20, 30));
    d.ncv = base + room;
    d.n = d.ncv + (int) r.range(5, ctx.thorough && !corpus ? 80 : 40);
    if (roomk == 3) { d.n = (int) r.range(std::max(base + 1, 8), 40); d.ncv = d.n; }
    static const char* ROOM[] = {"tight", "medium", "roomy", "full"};
    const int n = d.n;
    // prescribed spectrum: real for the symmetric families, real + conjugate pairs for the general ones (normal matrix)
    const auto& rules = gen ? GEN_SELECT : SYM_SELECT;
    const SortRule rule = r.pick(rules);
    Spec sp;
    std::vector<std::complex<LD>> lam(n);
    Eigen::MatrixXd D = Eigen::MatrixXd::Zero(n, n);
    const bool definite = !gen && r.coin(0.4);
    for (int attempt = 0; attempt < 200; attempt++)
    {
        int i = 0;
        D.setZero();
        while (i < n)
        {
            if (gen && i + 1 < n && r.coin(0.5))
            {
                const double re = r.uni(-1, 1), im = r.uni(0.05, 1);
                D(i, i) = re; D(i + 1, i + 1) = re; D(i, i + 1) = im; D(i + 1, i) = -im;
                lam[i] = {re, im}; lam[i + 1] = {re, -im};
                i += 2;
            }
            else { const double v = definite ? r.uni(0.05, 1) : r.uni(-1, 1); D(i, i) = v; lam[i] = {v, 0}; i++; }
        }
        // shift for the spectral transformations: placed between eigenvalues, never on one
        d.sigma = T(r.uni(-0.8, 0.8));
        d.sigmai = T(r.uni(0.1, 0.6));
        if (f == 15 || f == 16) { if (std::abs((double) d.sigma) < 0.05) d.sigma = T(0.3); }
        bool near = false;
        for (int q = 0; q < n; q++) if (std::abs(lam[q] - std::complex<LD>((LD) d.sigma)) < 0.01L && (f == 3 || f == 4 || f == 7 || f == 8 || f >= 14)) near = true;
        if (f == 15) for (int q = 0; q < n; q++) if (std::abs(lam[q]) < 0.02L) near = true;   // buckling: K_G = L Q diag(1/lambda) Q' L'
        if (near) continue;
        std::vector<std::complex<LD>> nu(n);
        for (int q = 0; q < n; q++) nu[q] = iterated(f, lam[q], (LD) d.sigma, (LD) d.sigmai);
        if (!pick_wanted(rule, nu, d.nev, sp)) continue;
        if (sp.gap >= 0.005) break;
        sp.gap = 0;
    }
    if (!(sp.gap >= 0.005)) { ctx.count("evals"); ctx.count("skipped_no_gap"); return; }
    if (scaled)
    {
        for (auto& l : lam) l *= (LD) scale;
        D *= scale;
        d.sigma = T((double) d.sigma * scale);
        d.sigmai = T((double) d.sigmai * scale);
        d.scale = scale;
        ctx.count("scaled_corpus/1e" + std::to_string((int) std::lround(std::log10(scale))));
    }
    sp.lam = lam;
    // wanted keys at an end of the iterated spectrum?  (only meaningful for real spectra)
    {
        std::vector<LD> re;
        for (int q = 0; q < n; q++) re.push_back(iterated(f, lam[q], (LD) d.sigma, (LD) d.sigmai).real());
        const LD lo = *std::min_element(re.begin(), re.end()), hi = *std::max_element(re.begin(), re.end());
        bool at_end = false;
        for (int w : sp.wanted) { const LD v = iterated(f, lam[w], (LD) d.sigma, (LD) d.sigmai).real(); if (v == lo || v == hi) at_end = true; }
        sp.interior = !at_end;
        if (gen) sp.interior = (rule == SortRule::SmallestMagn || rule == SortRule::SmallestImag);
    }
    // build the matrices
    Eigen::MatrixXd Q = vg::rand_orth(r, n);
    Eigen::MatrixXd A = Q * D * Q.transpose();
    if (!gen) for (int j = 0; j < n; j++) for (int i = 0; i < j; i++) A(i, j) = A(j, i);
    d.classname = "prescribed-spectrum";
    if (f == 2) d.AH = A.cast<std::complex<T>>();
    else if (f >= 11)
    {
        // pencil with generalized eigenvalues lambda by construction: B = L L', A = L (Q D Q') L'
        Eigen::MatrixXd G = vg::rand_gauss(r, n, n) / std::sqrt((double) n);
        Eigen::MatrixXd L = Eigen::MatrixXd::Identity(n, n);
        for (int j = 0; j < n; j++) for (int i = j + 1; i < n; i++) L(i, j) = 0.3 * G(i, j);
        Eigen::MatrixXd Bm = L * L.transpose();
        Eigen::MatrixXd Am;
        if (f == 15)
        {
            // buckling: K = L L' (here d.A), K_G = L Q diag(1/lambda) Q' L' (here d.B): K x = lambda K_G x
            Eigen::MatrixXd Dinv = D;
            for (int i = 0; i < n; i++) Dinv(i, i) = 1.0 / D(i, i);
            Am = Bm;
            Bm = L * (Q * Dinv * Q.transpose()) * L.transpose();
        }
        else Am = L * A * L.transpose();
        for (int j = 0; j < n; j++) for (int i = 0; i < j; i++) { Am(i, j) = Am(j, i); Bm(i, j) = Bm(j, i); }
        d.A = Am.cast<T>(); d.As = d.A.sparseView();
        d.B = Bm.cast<T>(); d.Bs = d.B.sparseView();
    }
    else { d.A = A.cast<T>(); d.As = d.A.sparseView(); }
    const std::string cls = std::string(FSHORT[f]) + "/" + rule_name(rule) + "/" + ROOM[roomk] + "/" + (sp.interior ? "interior" : "extreme") + "/" + (sp.gap < 0.05 ? "gap<5%" : (sp.gap < 0.15 ? "gap<15%" : "gap>=15%"));
    with_family<T>(d, [&](auto fac) { run_case(ctx, fac, sp, rule, tag, cls, !corpus && roomk == 3); });
}
