// C10 - Bunch-Kaufman LDLT and the dense shift-solve wrappers built on it. One scalar type per build (-DC10_T=..., -DC10_COMPLEX for complex).
#define VF_MAIN
#include "common/framework.hpp"
#include "common/oracle.hpp"
#include <Spectra/LinAlg/BKLDLT.h>
#include <Spectra/MatOp/DenseSymShiftSolve.h>
#include <Spectra/MatOp/SymShiftInvert.h>

#ifndef C10_T
#define C10_T double
#endif
using T = C10_T;                                     // scalar of the matrix
using R = typename Eigen::NumTraits<T>::Real;        // real type
using namespace vo;
using MatC = Eigen::Matrix<T, Eigen::Dynamic, Eigen::Dynamic, Eigen::ColMajor>;
using MatR = Eigen::Matrix<T, Eigen::Dynamic, Eigen::Dynamic, Eigen::RowMajor>;
using Vec = Eigen::Matrix<T, Eigen::Dynamic, 1>;
using Spectra::CompInfo;
static const bool IS_CPLX = Eigen::NumTraits<T>::IsComplex;

const char* vf_driver() { return "c10_bkldlt"; }
static const LD C = 64;

static const char* CLS[] = {"spd", "indefinite", "zero-diagonal", "block-diagonal", "graded", "integer", "arrow", "tridiagonal", "pivot-stress"};
static const char* SHK[] = {"zero", "random", "equal-diagonal-entry", "near-diagonal-entry"};
static const char* PRES[] = {"plain", "map", "block", "expression"};

template <class S> static S rnd(vf::Rng& r);
template <> float rnd<float>(vf::Rng& r) { return (float) r.gauss(); }
template <> double rnd<double>(vf::Rng& r) { return r.gauss(); }
template <> long double rnd<long double>(vf::Rng& r) { return (long double) r.gauss(); }
template <> std::complex<double> rnd<std::complex<double>>(vf::Rng& r) { return {r.gauss(), r.gauss()}; }
template <> std::complex<float> rnd<std::complex<float>>(vf::Rng& r) { return {(float) r.gauss(), (float) r.gauss()}; }

static T herm(const T& x) { return Eigen::numext::conj(x); }
static T mkreal(const T& x) { return T(Eigen::numext::real(x)); }

// full Hermitian matrix of the class
static MatC gen(vf::Ctx& ctx, int n, int cls)
{
    auto& r = ctx.rng;
    MatC A = MatC::Zero(n, n);
    auto sym_fill = [&](auto f) {
        for (int j = 0; j < n; j++)
            for (int i = j; i < n; i++)
            {
                T v = f(i, j);
                if (i == j) A(i, i) = mkreal(v);
                else { A(i, j) = v; A(j, i) = herm(v); }
            }
    };
    switch (cls)
    {
        case 0:
        {
            MatC G(n, n);
            for (int i = 0; i < n; i++) for (int j = 0; j < n; j++) G(i, j) = rnd<T>(r);
            A = G * G.adjoint();
            for (int i = 0; i < n; i++) A(i, i) = mkreal(A(i, i)) + T(R(1));
            MatC L = A.template triangularView<Eigen::Lower>();
            A = L;
            for (int j = 0; j < n; j++) for (int i = j + 1; i < n; i++) A(j, i) = herm(A(i, j));
            break;
        }
        case 1: sym_fill([&](int, int) { return rnd<T>(r); }); break;
        case 2: sym_fill([&](int i, int j) { return i == j ? T(0) : rnd<T>(r); }); break;
        case 3:
        {
            int i = 0;
            while (i < n)
            {
                if (i + 1 < n && r.coin(0.5))
                {
                    T a = rnd<T>(r) + T(R(2));
                    A(i + 1, i) = a; A(i, i + 1) = herm(a);
                    if (r.coin(0.3)) A(i, i) = T(R(r.gauss()));
                    i += 2;
                }
                else { A(i, i) = T(R(r.coin() ? 1 : -1)) * T(R(1 + r.uni())); i++; }
            }
            break;
        }
        case 4:
        {
            const double dec = (sizeof(R) == 4 ? 5.0 : 12.0) / std::max(1, n - 1);
            sym_fill([&](int i, int j) { return rnd<T>(r) * T(R(std::pow(10.0, -dec * (i + j) / 2.0))); });
            break;
        }
        case 5: sym_fill([&](int, int) { return T(R(r.range(-3, 3))); }); break;
        case 6:  // arrow: dense first row/column + diagonal
            for (int i = 0; i < n; i++) A(i, i) = T(R(r.gauss()));
            for (int i = 1; i < n; i++) { T v = rnd<T>(r); A(i, 0) = v; A(0, i) = herm(v); }
            break;
        case 8:
        {
            // pivot stress: a path plus a few random couplings whose magnitudes are spread over many decades, diagonal entries zero, tiny or O(1):
            // whichever row the pivot search lands on (also the last ones), a wrong comparison there shows as element growth
            const double dec = sizeof(R) == 4 ? 3.0 : 6.0;
            auto mag = [&]() { return T(R((r.coin() ? 1 : -1) * std::pow(10.0, r.uni(-dec, dec) * (r.coin(0.5) ? 1.0 : 0.0)))); };
            for (int i = 0; i < n; i++) { const double x = r.uni(); A(i, i) = x < 0.4 ? T(0) : (x < 0.6 ? T(R(1e-8 * r.gauss())) : T(R(r.gauss()))); }
            for (int i = 0; i + 1 < n; i++) { T v = mag() * (Eigen::NumTraits<T>::IsComplex ? rnd<T>(r) / T(R(std::abs(rnd<T>(r)) + R(1))) + T(R(1)) : T(R(1))); A(i + 1, i) = v; A(i, i + 1) = herm(v); }
            for (int q = 0; q < n / 2; q++)
            {
                const int i = (int) r.range(0, n - 1), j = (int) r.range(0, n - 1);
                if (i > j + 1) { T v = mag(); A(i, j) = v; A(j, i) = herm(v); }
            }
            break;
        }
        default:
            for (int i = 0; i < n; i++) A(i, i) = T(R(r.gauss()));
            for (int i = 0; i + 1 < n; i++) { T v = rnd<T>(r); A(i + 1, i) = v; A(i, i + 1) = herm(v); }
    }
    return A;
}

static std::string mat_str(const MatC& A)
{
    std::ostringstream o;
    o.precision(9);
    const int n = (int) A.rows();
    o << "[";
    for (int i = 0; i < n && i < 6; i++) { o << (i ? ";" : ""); for (int j = 0; j < n && j < 6; j++) o << (j ? " " : "") << A(i, j); }
    o << (n > 6 ? " ...]" : "]");
    return o.str();
}

// the matrix as presented to the library: only triangle `uplo` holds data, the other one is NaN
template <class M>
static M one_triangle(const MatC& A, int uplo)
{
    const int n = (int) A.rows();
    M P(n, n);
    const R nan = std::numeric_limits<R>::quiet_NaN();
    for (int j = 0; j < n; j++)
        for (int i = 0; i < n; i++)
        {
            const bool keep = (i == j) || (uplo == Eigen::Lower ? i > j : i < j);
            P(i, j) = keep ? A(i, j) : T(nan);
        }
    return P;
}

struct Outcome { CompInfo info; Vec x; bool threw = false; };

template <class M>
static Outcome factor_solve(const MatC& A, int uplo, R sigma, int pres, const Vec& b, Spectra::BKLDLT<T>* reuse = nullptr)
{
    Outcome o;
    const int n = (int) A.rows();
    M P = one_triangle<M>(A, uplo);
    Spectra::BKLDLT<T> local;
    Spectra::BKLDLT<T>& fac = reuse ? *reuse : local;   // a reused object must give what a fresh one gives
    if (pres == 0) fac.compute(P, uplo, sigma);
    else if (pres == 1)
    {
        std::vector<T> buf((size_t) n * n);
        Eigen::Map<M> mp(buf.data(), n, n);
        mp = P;
        fac.compute(mp, uplo, sigma);
    }
    else if (pres == 2)
    {
        M big = M::Constant(n + 3, n + 2, T(std::numeric_limits<R>::quiet_NaN()));
        big.block(2, 1, n, n) = P;
        fac.compute(big.block(2, 1, n, n), uplo, sigma);
    }
    else
    {
        M Z = M::Zero(n, n);
        fac.compute(P + Z, uplo, sigma);
    }
    o.info = fac.info();
    if (o.info == CompInfo::Successful) o.x = fac.solve(b);
    return o;
}

static const char* info_name(CompInfo i)
{
    return i == CompInfo::Successful ? "Successful" : i == CompInfo::NotComputed ? "NotComputed" : i == CompInfo::NotConverging ? "NotConverging" : "NumericalIssue";
}

static void nonsingular_case(vf::Ctx& ctx)
{
    auto& r = ctx.rng;
    const int n = r.coin(0.45) ? (int) r.range(1, 12) : (int) r.range(13, 80);
    const int cls = (int) r.range(0, 8);
    const int shk = (int) r.range(0, 3);
    MatC A = gen(ctx, n, cls);
    R sigma = 0;
    const int k = (int) r.range(0, n - 1);
    const R dk = Eigen::numext::real(A(k, k));
    if (shk == 1) sigma = R(r.gauss());
    else if (shk == 2) sigma = dk;
    else if (shk == 3) sigma = dk * (R(1) + R(1e-8)) + (dk == R(0) ? R(1e-8) : R(0));
    // reference (long double, full matrix)
    MatCLD F = toCLD(A);
    for (int i = 0; i < n; i++) F(i, i) -= CLD((LD) sigma);
    // the statement is about nonsingular matrices: measure it (dense LU in long double), skip what is singular to working precision
    Eigen::FullPivLU<MatCLD> lu(F);
    LD pmin = std::numeric_limits<LD>::infinity(), pmax = 0;
    for (int i = 0; i < n; i++) { LD p = std::abs(lu.matrixLU()(i, i)); pmin = std::min(pmin, p); pmax = std::max(pmax, p); }
    const LD u = unit<T>();
    auto tag = [&]() {
        return vf::J().kv("scalar", Name<T>::s()).kv("n", n).kv("class", CLS[cls]).kv("shift_kind", SHK[shk]).kv("sigma", (LD) sigma).kv("A", mat_str(A));
    };
    if (!(pmin > 1e3L * n * u * pmax)) { ctx.count("skipped_numerically_singular"); return; }
    Vec b(n);
    for (int i = 0; i < n; i++) b[i] = rnd<T>(r);
    // half of the time b = (A - sigma I) w with w of O(1) entries: the solution then has O(1) components everywhere (a random b mostly excites the
    // directions of the small singular values, which hides element growth in the others)
    if (r.coin(0.5))
    {
        Vec w(n);
        for (int i = 0; i < n; i++) w[i] = rnd<T>(r);
        Vec bw = A * w - T(sigma) * w;
        bool fin = true;
        for (int i = 0; i < n; i++) fin = fin && std::isfinite((double) std::abs(bw[i]));
        if (fin) { b = bw; ctx.count("rhs/(A-sigma*I)w"); }
    }
    // right-hand sides with exact zeros (unit vectors, support on a leading / trailing segment, scattered support, the zero vector): a substitution loop
    // that treats zero entries specially - or skips ahead to the first nonzero - meets the 1x1 / 2x2 pivot structure at every offset this way
    else if (r.coin(0.6))
    {
        const int kind = (int) r.range(0, 4);
        static const char* ZK[] = {"unit-vector", "trailing-support", "leading-support", "scattered-support", "zero-vector"};
        const int j = (int) r.range(0, n - 1);
        for (int i = 0; i < n; i++)
        {
            const bool keep = kind == 0 ? i == j : kind == 1 ? i >= j : kind == 2 ? i <= j : kind == 3 ? r.coin(0.3) : false;
            if (!keep) b[i] = T(0);
        }
        ctx.count(std::string("rhs/") + ZK[kind]);
    }
    const VecCLD bl = toCLD(b);
    const LD fn = fnorm(F), bn = fnorm(bl);
    Outcome first;
    bool have_first = false;
    Spectra::BKLDLT<T> shared;
    // the object has had an earlier life: an unrelated matrix of the same size (other pivots, other 2x2 blocks) factorized first, and again between
    // the presentations half of the time - set_shift() of the dense wrappers re-factorizes on one object in just this way
    const MatC other = gen(ctx, n, (int) r.range(0, 5));
    const R osig = R(r.gauss());
    for (int uplo : {Eigen::Lower, Eigen::Upper})
        for (int order = 0; order < 2; order++)
        {
            if ((uplo == Eigen::Lower && order == 0) || r.coin(0.5)) { shared.compute(other, r.coin() ? Eigen::Lower : Eigen::Upper, osig); ctx.count("earlier_factorizations_on_the_same_object"); }
            const int pres = (int) r.range(0, 3);
            // one factorization object serves all four presentations of this matrix (as the dense shift wrappers do on every set_shift)
            Outcome o = order == 0 ? factor_solve<MatC>(A, uplo, sigma, pres, b, &shared) : factor_solve<MatR>(A, uplo, sigma, pres, b, &shared);
            const std::string cfg = std::string(uplo == Eigen::Lower ? "Lower" : "Upper") + "/" + (order ? "RowMajor" : "ColMajor") + "/" + PRES[pres];
            ctx.count("factorizations");
            ctx.count(std::string("presentation/") + PRES[pres]);
            if (o.info != CompInfo::Successful)
            {
                ctx.violation(std::string("BKLDLT/nonsingular-not-Successful/") + (n == 1 ? "n=1" : "n>1"), tag().kv("config", cfg).kv("info", info_name(o.info)).str());
                continue;
            }
            if (!all_finite(o.x)) { ctx.violation("BKLDLT/non-finite-solution", tag().kv("config", cfg).str()); continue; }
            const VecCLD xl = toCLD(o.x);
            const LD res = fnorm(VecCLD(F * xl - bl)), allow = C * n * u * (fn * fnorm(xl) + bn);
            if (!within(ctx, "BKLDLT/residual", res, allow))
                ctx.violation("BKLDLT/residual", tag().kv("config", cfg).kv("observed", res).kv("allowed", allow).str());
            if (!have_first) { first = o; have_first = true; }
            else
            {
                bool same = true;
                for (int i = 0; i < n; i++) same = same && (o.x[i] == first.x[i]);
                ctx.count(same ? "lower_upper_bit_identical" : "lower_upper_differ_in_bits");
            }
        }
    ctx.count("evals");
    ctx.count(std::string("class/") + CLS[cls]);
    ctx.count(std::string("shift/") + SHK[shk]);
    if (n <= 12) ctx.count("size<=12");
    ctx.nontriv(std::string("ns/") + std::to_string(n) + "/" + std::to_string(cls) + "/" + std::to_string(shk) + "/" + std::to_string((LD) std::abs(A(n - 1, 0))) + "/" + std::to_string((LD) sigma));
    if (ctx.want_sample) ctx.set_sample(tag().kv("kind", "nonsingular").str());
}

// structurally singular input: an exactly singular pivot block must be met
static void singular_case(vf::Ctx& ctx)
{
    auto& r = ctx.rng;
    const int kind = (int) r.range(0, 3);
    int n = kind == 0 ? 1 : (int) r.range(2, 30);
    R sigma = R(r.range(-3, 3));
    MatC A;
    const char* kn;
    if (kind == 0) { A = MatC::Constant(1, 1, T(sigma)); kn = "1x1-equal-to-shift"; }
    else if (kind == 1) { A = MatC::Zero(n, n); sigma = 0; kn = "zero-matrix"; }
    else if (kind == 2)
    {
        A = gen(ctx, n, (int) r.range(0, 5));
        const int k = (int) r.range(0, n - 1);
        A.row(k).setZero(); A.col(k).setZero(); A(k, k) = T(sigma);
        kn = "zero-row-and-column-after-shift";
    }
    else { A = MatC::Identity(n, n) * T(sigma); kn = "sigma*identity"; }
    auto tag = [&]() { return vf::J().kv("scalar", Name<T>::s()).kv("n", n).kv("kind", kn).kv("sigma", (LD) sigma).kv("A", mat_str(A)); };
    for (int uplo : {Eigen::Lower, Eigen::Upper})
    {
        MatC P = one_triangle<MatC>(A, uplo);
        Spectra::BKLDLT<T> fac(P, uplo, sigma);
        ctx.count("singular_factorizations");
        if (fac.info() != CompInfo::NumericalIssue)
            ctx.violation(std::string("BKLDLT/singular-not-NumericalIssue/") + kn, tag().kv("info", info_name(fac.info())).kv("uplo", uplo == Eigen::Lower ? "Lower" : "Upper").str());
        // reuse: the status describes the latest compute()
        MatC G = gen(ctx, n, 0);
        fac.compute(G, Eigen::Lower, R(0));
        if (fac.info() != CompInfo::Successful)
            ctx.violation(std::string("BKLDLT/status-not-reset-after-failure/") + (n == 1 ? "n=1" : "n>1"), tag().kv("info_after_good_compute", info_name(fac.info())).str());
        fac.compute(P, uplo, sigma);
        if (fac.info() != CompInfo::NumericalIssue)
            ctx.violation(std::string("BKLDLT/singular-not-NumericalIssue-on-reuse/") + kn, tag().kv("info", info_name(fac.info())).str());
    }
#ifndef C10_COMPLEX
    // dense wrappers: the failure must surface as std::invalid_argument from set_shift
    {
        bool threw = false, other = false;
        try { Spectra::DenseSymShiftSolve<T> op(A); op.set_shift(sigma); }
        catch (const std::invalid_argument&) { threw = true; }
        catch (...) { other = true; }
        ctx.count("wrapper_singular_calls");
        if (!threw || other) ctx.violation(std::string("DenseSymShiftSolve/singular-shift-not-rejected/") + kn, tag().kv("threw_invalid_argument", threw).kv("threw_other", other).str());
        if (n >= 2)
        {
            // A - sigma*B with B = I (dense,dense)
            MatC B = MatC::Identity(n, n);
            threw = false; other = false;
            try { Spectra::SymShiftInvert<T, Eigen::Dense, Eigen::Dense> op(A, B); op.set_shift(sigma); }
            catch (const std::invalid_argument&) { threw = true; }
            catch (...) { other = true; }
            ctx.count("wrapper_singular_calls");
            if (!threw || other) ctx.violation(std::string("SymShiftInvert/singular-shift-not-rejected/") + kn, tag().kv("threw_invalid_argument", threw).kv("threw_other", other).str());
        }
    }
#endif
    ctx.count("evals");
    ctx.nontriv(std::string("sing/") + std::to_string(n) + "/" + kn + "/" + std::to_string((LD) sigma) + "/" + std::to_string((LD) std::abs(A(n - 1, 0))));
    if (ctx.want_sample) ctx.set_sample(tag().kv("kind", "structurally-singular").str());
}

#ifndef C10_COMPLEX
// the same solves through the dense wrappers' perform_op
static void wrapper_case(vf::Ctx& ctx)
{
    auto& r = ctx.rng;
    const int n = (int) r.range(1, 40);
    const int cls = (int) r.range(0, 7);
    MatC A = gen(ctx, n, cls);
    const R sigma = R(r.gauss());
    MatCLD F = toCLD(A);
    for (int i = 0; i < n; i++) F(i, i) -= CLD((LD) sigma);
    Eigen::FullPivLU<MatCLD> lu(F);
    LD pmin = std::numeric_limits<LD>::infinity(), pmax = 0;
    for (int i = 0; i < n; i++) { LD p = std::abs(lu.matrixLU()(i, i)); pmin = std::min(pmin, p); pmax = std::max(pmax, p); }
    const LD u = unit<T>();
    if (!(pmin > 1e3L * n * u * pmax)) { ctx.count("skipped_numerically_singular"); return; }
    Vec b(n), y(n);
    for (int i = 0; i < n; i++) b[i] = rnd<T>(r);
    const VecCLD bl = toCLD(b);
    auto judge = [&](const char* who, const Vec& x) {
        const VecCLD xl = toCLD(x);
        const LD res = fnorm(VecCLD(F * xl - bl)), allow = C * n * u * (fnorm(F) * fnorm(xl) + fnorm(bl));
        if (!within(ctx, "wrapper/residual", res, allow))
            ctx.violation(std::string(who) + "/residual", vf::J().kv("scalar", Name<T>::s()).kv("n", n).kv("class", CLS[cls]).kv("sigma", (LD) sigma).kv("observed", res).kv("allowed", allow).str());
        ctx.count("wrapper_solves");
    };
    auto rejected = [&](const char* who, const char* what) {
        ctx.violation(std::string(who) + "/nonsingular-shift-rejected/" + (n == 1 ? "n=1" : "n>1"),
                      vf::J().kv("scalar", Name<T>::s()).kv("n", n).kv("class", CLS[cls]).kv("sigma", (LD) sigma).kv("what", what).kv("A", mat_str(A)).str());
    };
    {
        try
        {
            MatC P = one_triangle<MatC>(A, Eigen::Lower);
            Spectra::DenseSymShiftSolve<T, Eigen::Lower, Eigen::ColMajor> op(P);
            op.set_shift(sigma);
            op.perform_op(b.data(), y.data());
            judge("DenseSymShiftSolve<Lower,ColMajor>", y);
        }
        catch (const std::invalid_argument& e) { rejected("DenseSymShiftSolve<Lower,ColMajor>", e.what()); }
    }
    {
        try
        {
            MatR P = one_triangle<MatR>(A, Eigen::Upper);
            Spectra::DenseSymShiftSolve<T, Eigen::Upper, Eigen::RowMajor> op(P);
            op.set_shift(sigma);
            op.perform_op(b.data(), y.data());
            judge("DenseSymShiftSolve<Upper,RowMajor>", y);
        }
        catch (const std::invalid_argument& e) { rejected("DenseSymShiftSolve<Upper,RowMajor>", e.what()); }
    }
    {
        try
        {
            MatC P = one_triangle<MatC>(A, Eigen::Upper);
            MatR I = MatR::Identity(n, n);
            Spectra::SymShiftInvert<T, Eigen::Dense, Eigen::Dense, Eigen::Upper, Eigen::Lower, Eigen::ColMajor, Eigen::RowMajor> op(P, I);
            op.set_shift(sigma);
            op.perform_op(b.data(), y.data());
            judge("SymShiftInvert<Dense,Dense,Upper,Lower>", y);
        }
        catch (const std::invalid_argument& e) { rejected("SymShiftInvert<Dense,Dense,Upper,Lower>", e.what()); }
    }
    ctx.count("evals");
    ctx.nontriv(std::string("wrap/") + std::to_string(n) + "/" + std::to_string(cls) + "/" + std::to_string((LD) sigma));
    if (ctx.want_sample) ctx.set_sample(vf::J().kv("kind", "wrapper-solve").kv("scalar", Name<T>::s()).kv("n", n).kv("class", CLS[cls]).kv("sigma", (LD) sigma).str());
}
#endif

long vf_ncases(const vf::Ctx& ctx) { return ctx.thorough ? 30000 : 1600; }

void vf_run_case(vf::Ctx& ctx, long idx)
{
    for (int rep = 0; rep < 4; rep++)
    {
        const int k = (int) ((idx + rep) % 5);
        if (k <= 2) nonsingular_case(ctx);
        else if (k == 3) singular_case(ctx);
        else
        {
#ifndef C10_COMPLEX
            wrapper_case(ctx);
#else
            nonsingular_case(ctx);
#endif
        }
    }
}
