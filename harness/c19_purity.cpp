// C19 purity monitor target: runs the generator and default-initialised solvers between two markers.
// Traced by ltrace/strace from tools/registry.py; also prints a digest compared across processes.
#include <Eigen/Dense>
#include <Eigen/Sparse>
#include <cstdio>
#include <cstdlib>
#include <cstring>
#include <ctime>
#include <unistd.h>
#include <vector>
#include <Spectra/Util/SimpleRandom.h>
#include <Spectra/SymEigsSolver.h>
#include <Spectra/GenEigsSolver.h>
#include <Spectra/MatOp/DenseSymMatProd.h>
#include <Spectra/MatOp/DenseGenMatProd.h>

static uint64_t h = 1469598103934665603ULL;
static void mix(const void* p, size_t n) { const unsigned char* c = (const unsigned char*) p; for (size_t i = 0; i < n; i++) { h ^= c[i]; h *= 1099511628211ULL; } }

int main(int argc, char** argv)
{
    const bool perturb = argc > 1 && !strcmp(argv[1], "perturb");
    const bool canary = argc > 1 && !strcmp(argv[1], "canary");
    std::vector<void*> junk;
    if (perturb)
    {
        srand((unsigned) time(nullptr));
        for (int i = 0; i < 1000; i++) junk.push_back(malloc(1 + rand() % 5000));
        for (size_t i = 0; i < junk.size(); i += 3) { free(junk[i]); junk[i] = nullptr; }
    }
    // matrices are built before the marked region (deterministic, no libc RNG)
    const int n = 40;
    Eigen::MatrixXd A(n, n), G(n, n);
    for (int i = 0; i < n; i++) for (int j = 0; j < n; j++) { G(i, j) = std::sin(1.0 + i * 7 + j * 13) + (i == j ? 3.0 : 0.0); }
    A = G + G.transpose();
    if (write(2, "VF_MARK_BEGIN\n", 14) < 0) return 3;
    if (canary) { srand(7); h ^= (uint64_t) rand(); }
    for (unsigned long s = 0; s < 200; s++)
    {
        Spectra::SimpleRandom<double> a(s);
        Eigen::VectorXd v = a.random_vec(33);
        mix(v.data(), sizeof(double) * 33);
        Spectra::SimpleRandom<std::complex<float>> b(2 * s + 123);
        Eigen::VectorXcf w = b.random_vec(7);
        mix(w.data(), sizeof(std::complex<float>) * 7);
    }
    {
        Spectra::DenseSymMatProd<double> op(A);
        Spectra::SymEigsSolver<Spectra::DenseSymMatProd<double>> es(op, 4, 12);
        es.init();
        es.compute(Spectra::SortRule::LargestAlge, 500, 1e-10);
        Eigen::VectorXd ev = es.eigenvalues();
        Eigen::MatrixXd U = es.eigenvectors();
        mix(ev.data(), sizeof(double) * ev.size());
        mix(U.data(), sizeof(double) * U.size());
    }
    {
        Spectra::DenseGenMatProd<double> op(G);
        Spectra::GenEigsSolver<Spectra::DenseGenMatProd<double>> es(op, 4, 14);
        es.init();
        es.compute(Spectra::SortRule::LargestMagn, 500, 1e-10);
        Eigen::VectorXcd ev = es.eigenvalues();
        Eigen::MatrixXcd U = es.eigenvectors();
        mix(ev.data(), sizeof(std::complex<double>) * ev.size());
        mix(U.data(), sizeof(std::complex<double>) * U.size());
    }
    if (write(2, "VF_MARK_END\n", 12) < 0) return 3;
    printf("DIGEST %llu\n", (unsigned long long) h);
    for (void* p : junk) free(p);
    return 0;
}
