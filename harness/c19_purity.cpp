// C19 purity monitor target: runs the generator and default-initialised solvers between two markers.
// Traced by ltrace/strace from tools/registry.py; also prints a digest compared across processes.
#include <Eigen/Dense>
#include <Eigen/Sparse>
#include <cstdio>
#include <cstdlib>
#include <cstring>
#include <ctime>
#include <unistd.h>
#include <vector>
// guarded factorization hook: counts the events, so that the run can say whether the places where the library draws random numbers were reached
static long g_breakdown_resolved = 0, g_breakdown_unresolved = 0, g_inits = 0;
static inline void c19_hook(const char* point)
{
    if (!strcmp(point, "breakdown")) g_breakdown_resolved++;
    else if (!strcmp(point, "breakdown-unresolved")) g_breakdown_unresolved++;
    else if (!strcmp(point, "init")) g_inits++;
}
#define SPECTRA_VERIF_FAC_HOOK(point, fac, k) c19_hook(point)
#include <Spectra/Util/SimpleRandom.h>
#include <Spectra/SymEigsSolver.h>
#include <Spectra/HermEigsSolver.h>
#include <Spectra/GenEigsSolver.h>
#include <Spectra/GenEigsComplexShiftSolver.h>
#include <Spectra/MatOp/DenseSymMatProd.h>
#include <Spectra/MatOp/DenseHermMatProd.h>
#include <Spectra/MatOp/DenseGenMatProd.h>
#include <Spectra/MatOp/DenseGenComplexShiftSolve.h>

static uint64_t h = 1469598103934665603ULL;
static void mix(const void* p, size_t n) { const unsigned char* c = (const unsigned char*) p; for (size_t i = 0; i < n; i++) { h ^= c[i]; h *= 1099511628211ULL; } }

int main(int argc, char** argv)
{
    const bool perturb = argc > 1 && !strcmp(argv[1], "perturb");
    const bool canary = argc > 1 && !strcmp(argv[1], "canary");
    std::vector<void*> junk;
    if (perturb)
    {
        srand((unsigned) time(nullptr));
        for (int i = 0; i < 1000; i++) junk.push_back(malloc(1 + rand() % 5000));
        for (size_t i = 0; i < junk.size(); i += 3) { free(junk[i]); junk[i] = nullptr; }
    }
    // matrices are built before the marked region (deterministic, no libc RNG)
    const int n = 40;
    Eigen::MatrixXd A(n, n), G(n, n);
    for (int i = 0; i < n; i++) for (int j = 0; j < n; j++) { G(i, j) = std::sin(1.0 + i * 7 + j * 13) + (i == j ? 3.0 : 0.0); }
    A = G + G.transpose();
    if (write(2, "VF_MARK_BEGIN\n", 14) < 0) return 3;
    if (canary) { srand(7); h ^= (uint64_t) rand(); }
    for (unsigned long s = 0; s < 200; s++)
    {
        Spectra::SimpleRandom<double> a(s);
        Eigen::VectorXd v = a.random_vec(33);
        mix(v.data(), sizeof(double) * 33);
        Spectra::SimpleRandom<std::complex<float>> b(2 * s + 123);
        Eigen::VectorXcf w = b.random_vec(7);
        mix(w.data(), sizeof(std::complex<float>) * 7);
    }
    {
        Spectra::DenseSymMatProd<double> op(A);
        Spectra::SymEigsSolver<Spectra::DenseSymMatProd<double>> es(op, 4, 12);
        es.init();
        es.compute(Spectra::SortRule::LargestAlge, 500, 1e-10);
        Eigen::VectorXd ev = es.eigenvalues();
        Eigen::MatrixXd U = es.eigenvectors();
        mix(ev.data(), sizeof(double) * ev.size());
        mix(U.data(), sizeof(double) * U.size());
    }
    {
        Spectra::DenseGenMatProd<double> op(G);
        Spectra::GenEigsSolver<Spectra::DenseGenMatProd<double>> es(op, 4, 14);
        es.init();
        es.compute(Spectra::SortRule::LargestMagn, 500, 1e-10);
        Eigen::VectorXcd ev = es.eigenvalues();
        Eigen::MatrixXcd U = es.eigenvectors();
        mix(ev.data(), sizeof(std::complex<double>) * ev.size());
        mix(U.data(), sizeof(std::complex<double>) * U.size());
    }
    // every other place where the library draws random numbers (HermEigsBase::init / GenEigsBase::init with the default start vector, the probe vector of the
    // complex-shift back-transformation, and Arnoldi::expand_basis - its first try AND its later tries, which are only reached when A*random lies in the
    // span of the basis: see the exactly-rank-two matrix below)
    long rank2_breakdowns = 0;
    {
        // exactly rank two with exactly representable entries: range(A) = span(e1, e2) and every basis vector of the factorization has exact zeros elsewhere,
        // so once the two directions are used up, the first try (f = A*random, projected) leaves a vector inside span(V) or exactly zero and cannot pass
        Eigen::MatrixXd Z = Eigen::MatrixXd::Zero(n, n);
        Z(0, 0) = 1; Z(1, 1) = 2;
        const long b0 = g_breakdown_resolved;
        {
            Spectra::DenseSymMatProd<double> op(Z);
            Spectra::SymEigsSolver<Spectra::DenseSymMatProd<double>> es(op, 3, 9);
            es.init();
            try { es.compute(Spectra::SortRule::LargestAlge, 5, 1e-10); Eigen::MatrixXd U = es.eigenvectors(); mix(U.data(), sizeof(double) * U.size()); } catch (const std::exception&) {}
        }
        {
            Eigen::MatrixXd Zg = Z;
            Zg(0, 1) = 1;
            Spectra::DenseGenMatProd<double> op(Zg);
            Spectra::GenEigsSolver<Spectra::DenseGenMatProd<double>> es(op, 3, 9);
            es.init();
            try { es.compute(Spectra::SortRule::LargestMagn, 5, 1e-10); Eigen::MatrixXcd U = es.eigenvectors(); mix(U.data(), sizeof(std::complex<double>) * U.size()); } catch (const std::exception&) {}
        }
        rank2_breakdowns = g_breakdown_resolved - b0;
        // rank two: the range is exhausted after two steps
        Eigen::MatrixXd L = Eigen::MatrixXd::Zero(n, n);
        for (int i = 0; i < n; i++) for (int j = 0; j < n; j++) L(i, j) = std::sin(1.0 + i) * std::sin(1.0 + j) + 0.5 * std::cos(2.0 * i) * std::cos(2.0 * j);
        {
            Spectra::DenseSymMatProd<double> op(L);
            Spectra::SymEigsSolver<Spectra::DenseSymMatProd<double>> es(op, 3, 10);
            es.init();
            try { es.compute(Spectra::SortRule::LargestMagn, 20, 1e-10); Eigen::MatrixXd U = es.eigenvectors(); mix(U.data(), sizeof(double) * U.size()); } catch (const std::exception&) {}
        }
        {
            Eigen::MatrixXd L2 = L;
            for (int j = 0; j < n; j++) L2(0, j) += std::sin(3.0 * j);   // rank three, not symmetric
            Spectra::DenseGenMatProd<double> op(L2);
            Spectra::GenEigsSolver<Spectra::DenseGenMatProd<double>> es(op, 3, 10);
            es.init();
            try { es.compute(Spectra::SortRule::LargestMagn, 20, 1e-10); Eigen::MatrixXcd U = es.eigenvectors(); mix(U.data(), sizeof(std::complex<double>) * U.size()); } catch (const std::exception&) {}
        }
        {
            Eigen::MatrixXcd H = (A + std::complex<double>(0, 1) * (G - G.transpose())).eval();
            Spectra::DenseHermMatProd<std::complex<double>> op(H);
            Spectra::HermEigsSolver<Spectra::DenseHermMatProd<std::complex<double>>> es(op, 3, 10);
            es.init();
            es.compute(Spectra::SortRule::LargestAlge, 300, 1e-10);
            Eigen::MatrixXcd U = es.eigenvectors();
            mix(U.data(), sizeof(std::complex<double>) * U.size());
        }
        {
            Spectra::DenseGenComplexShiftSolve<double> op(G);
            Spectra::GenEigsComplexShiftSolver<Spectra::DenseGenComplexShiftSolve<double>> es(op, 4, 14, 0.3, 0.7);
            es.init();
            es.compute(Spectra::SortRule::LargestMagn, 300, 1e-10);
            Eigen::VectorXcd ev = es.eigenvalues();
            mix(ev.data(), sizeof(std::complex<double>) * ev.size());
        }
    }
    if (write(2, "VF_MARK_END\n", 12) < 0) return 3;
    printf("REACHED inits=%ld breakdowns_resolved=%ld breakdowns_unresolved=%ld exact_rank_two_breakdowns_resolved=%ld\n", g_inits, g_breakdown_resolved, g_breakdown_unresolved, rank2_breakdowns);
    printf("DIGEST %llu\n", (unsigned long long) h);
    for (void* p : junk) free(p);
    return 0;
}
