// C08 - shifted QR helpers: UpperHessenbergQR, TridiagQR, DoubleShiftQR. One scalar type per build (-DC08_T=float|double|"long double").
#define VF_MAIN
#include "common/framework.hpp"
#include "common/oracle.hpp"
#include <Eigen/Eigenvalues>
#include <Spectra/LinAlg/UpperHessenbergQR.h>
#include <Spectra/LinAlg/DoubleShiftQR.h>

#ifndef C08_T
#define C08_T double
#endif
using T = C08_T;
using namespace vo;
using Mat = Eigen::Matrix<T, Eigen::Dynamic, Eigen::Dynamic>;
using Vec = Eigen::Matrix<T, Eigen::Dynamic, 1>;
using Eigen::Index;

const char* vf_driver() { return "c08_qr"; }

// rounding allowance constant (DESIGN 2.5: worst observed ratio on the unchanged tree is ~4 with c = 1; frozen at 64)
static const LD C = 64;

static const char* PAT[] = {"random", "int-zero-pattern", "graded", "deflated-blocks", "tiny-subdiag", "scaled-big", "scaled-small",
                            "zero-diagonal", "diag-or-zero"};
static const char* SHF[] = {"random", "zero", "huge", "exact-eigenvalue", "diagonal-entry", "tiny"};

static T big_scale()
{
    if (sizeof(T) == 4) return T(1e15);  // squares (1e+-30) stay normal in float
    if (std::numeric_limits<T>::max_exponent > 2000) return std::pow(T(10), T(2000));
    return T(1e150);
}

// entries of the generated Hessenberg / tridiagonal matrix
static Mat gen_matrix(vf::Ctx& ctx, int n, int pat, bool tridiag, long mask)
{
    Mat H = Mat::Zero(n, n);
    auto& r = ctx.rng;
    auto fill = [&](auto f) {
        for (int j = 0; j < n; j++)
            for (int i = 0; i <= std::min(n - 1, j + 1); i++)
            {
                if (tridiag && j > i + 1) continue;
                H(i, j) = f(i, j);
            }
        if (tridiag)
            for (int i = 0; i + 1 < n; i++) H(i, i + 1) = H(i + 1, i);
    };
    switch (pat)
    {
        case 0: fill([&](int, int) { return T(r.gauss()); }); break;
        case 1:
            fill([&](int, int) { return T(r.range(-3, 3)); });
            for (int i = 0; i + 1 < n; i++)
            {
                T v = ((mask >> i) & 1) ? T(r.coin() ? r.range(1, 3) : -r.range(1, 3)) : T(0);
                H(i + 1, i) = v;
                if (tridiag) H(i, i + 1) = v;
            }
            break;
        case 2:
        {
            const double dec = (sizeof(T) == 4 ? 6.0 : 16.0) / std::max(1, 2 * n - 2);
            const bool up = r.coin();
            fill([&](int i, int j) { int e = up ? (i + j) : (2 * n - 2 - i - j); return T(r.gauss() * std::pow(10.0, -dec * e)); });
            break;
        }
        case 3:
            fill([&](int, int) { return T(r.gauss()); });
            for (int i = 0; i + 1 < n; i++)
                if (r.coin(0.35)) { H(i + 1, i) = 0; if (tridiag) H(i, i + 1) = 0; }
            break;
        case 4:
            fill([&](int, int) { return T(r.gauss()); });
            for (int i = 0; i + 1 < n; i++)
                if (r.coin(0.4))
                {
                    T v = T(r.gauss()) * std::numeric_limits<T>::epsilon() * T(std::pow(10.0, (double) r.range(-3, 2)));
                    H(i + 1, i) = v;
                    if (tridiag) H(i, i + 1) = v;
                }
            break;
        case 5: fill([&](int, int) { return T(r.gauss()); }); H *= big_scale(); break;
        case 6: fill([&](int, int) { return T(r.gauss()); }); H /= big_scale(); break;
        case 7:  // zero diagonal: companion-like / path-graph adjacency / Jacobi matrices: exactly zero pivots with shift 0
            fill([&](int i, int j) { return i == j ? T(0) : T(r.coin() ? r.range(1, 4) : r.gauss()); });
            break;
        default:
        {
            const int k = (int) r.range(0, 2);
            if (k == 0) H.setZero();
            else if (k == 1) H.setIdentity();
            else for (int i = 0; i < n; i++) H(i, i) = T(r.range(-2, 2));
        }
    }
    return H;
}

struct Shift { T s; T t; bool has_pair; };

// shift for the single-shift classes / (s,t) for the double-shift class
static Shift gen_shift(vf::Ctx& ctx, const Mat& H, int kind, bool want_double)
{
    auto& r = ctx.rng;
    const int n = (int) H.rows();
    const LD nrm = fnorm(toLD(H));
    Shift sh{T(0), T(0), false};
    const T scale = nrm > 0 ? T(nrm / std::sqrt((LD) n)) : T(1);
    switch (kind)
    {
        case 0: sh.s = T(r.gauss()) * scale; sh.t = T(r.gauss()) * scale * scale; break;
        case 1: break;
        case 2: sh.s = T(1e6) * scale * T(r.coin() ? 1 : -1); sh.t = sh.s * sh.s * T(0.3); break;
        case 3:
        {
            // exact eigenvalue(s) of H as computed by Eigen's dense solver in long double, rounded to T
            MatLD Hl = toLD(H);
            LD sc = Hl.cwiseAbs().maxCoeff();
            if (!(sc > 0)) break;
            Eigen::EigenSolver<MatLD> es(Hl / sc, false);
            if (es.info() != Eigen::Success) break;
            const int k = (int) r.range(0, n - 1);
            std::complex<LD> ev = es.eigenvalues()[k] * sc;
            if (!want_double) sh.s = T(ev.real());
            else if (ev.imag() != 0) { sh.s = T(2 * ev.real()); sh.t = T(std::norm(ev)); sh.has_pair = true; }
            else
            {
                std::complex<LD> e2 = es.eigenvalues()[(k + 1) % n] * sc;
                sh.s = T(ev.real() + e2.real());
                sh.t = T(ev.real() * e2.real());
            }
            break;
        }
        case 4:
        {
            const int k = (int) r.range(0, n - 1);
            sh.s = want_double ? T(2) * H(k, k) : H(k, k);
            sh.t = H(k, k) * H(k, k);
            break;
        }
        default: sh.s = std::numeric_limits<T>::min() * T(100); sh.t = std::numeric_limits<T>::min() * T(100);
    }
    return sh;
}

static std::string mat_str(const Mat& H)
{
    std::ostringstream o;
    o.precision(9);
    const int n = (int) H.rows();
    o << "[";
    for (int i = 0; i < n && i < 8; i++)
    {
        o << (i ? ";" : "");
        for (int j = 0; j < n && j < 8; j++) o << (j ? " " : "") << (LD) H(i, j);
    }
    o << (n > 8 ? " ...]" : "]");
    return o.str();
}

struct Desc { const char* cls; int n, pat, shift; long mask; };
static std::string desc_json(const Desc& d, const Mat& H, const Shift& sh, const char* what, LD obs, LD allow)
{
    return vf::J().kv("class", d.cls).kv("scalar", Name<T>::s()).kv("n", d.n).kv("pattern", PAT[d.pat]).kv("shift_kind", SHF[d.shift])
        .kv("s", (LD) sh.s).kv("t", (LD) sh.t).kv("check", what).kv("observed", obs).kv("allowed", allow).kv("H", mat_str(H)).str();
}

// ---------------------------------------------------------------------------------- single-shift classes
template <class QR>
static void check_single(vf::Ctx& ctx, const Desc& d, const Mat& H, const Shift& sh, bool tridiag)
{
    const int n = d.n;
    const LD u = unit<T>();
    const MatLD Hl = toLD(H);
    const LD hn = fnorm(Hl), sn = std::abs((LD) sh.s);
    const LD scale = hn + sn * std::sqrt((LD) n);
    const LD allow = C * n * u * (scale > 0 ? scale : LD(1e-300L));
    auto bad = [&](const char* what, LD obs, LD al) {
        ctx.violation(std::string(d.cls) + "/" + what, desc_json(d, H, sh, what, obs, al));
    };
    QR qr(H, sh.s);
    // explicit Q through apply_YQ(I)
    Mat Qt = Mat::Identity(n, n);
    qr.apply_YQ(Qt);
    const MatLD Q = toLD(Qt);
    if (!all_finite(Q)) { bad("Q-not-finite", 0, 0); return; }
    LD e = orth_err(Q);
    if (!within(ctx, std::string(d.cls) + "/orthogonality", e, C * n * u)) bad("Q-not-orthogonal", e, C * n * u);
    // R: exactly upper triangular, Q R = H - s I
    const Mat Rt = qr.matrix_R();
    bool tri = (Rt.rows() == n && Rt.cols() == n);
    for (int j = 0; tri && j < n; j++)
        for (int i = j + 1; i < n; i++) tri = tri && (Rt(i, j) == T(0));
    if (tridiag)
        for (int j = 0; tri && j < n; j++)
            for (int i = 0; i + 2 < j; i++) tri = tri && (Rt(i, j) == T(0));
    if (!tri) bad("R-not-upper-triangular", 0, 0);
    else
    {
        MatLD S = Hl;
        S.diagonal().array() -= (LD) sh.s;
        e = fnorm(MatLD(Q * toLD(Rt) - S));
        if (!within(ctx, std::string(d.cls) + "/QR=H-sI", e, allow)) bad("QR!=H-sI", e, allow);
    }
    // Q'HQ output. The destination is an output argument: what it held before must not matter - empty, or already n x n and full of other numbers
    // (a workspace shared between decompositions), or of another size
    Mat Gt;
    const int pre = (int) ((n + ctx.idx) % 3);
    if (pre == 1) Gt = Mat::Constant(n, n, T(7));
    else if (pre == 2) Gt = Mat::Constant(n + 1, n + 2, T(7));
    ctx.count(pre == 0 ? "QtHQ_destination/empty" : pre == 1 ? "QtHQ_destination/same-size-with-other-content" : "QtHQ_destination/other-size");
    qr.matrix_QtHQ(Gt);
    bool shape = (Gt.rows() == n && Gt.cols() == n);
    for (int j = 0; shape && j < n; j++)
        for (int i = j + 2; i < n; i++) shape = shape && (Gt(i, j) == T(0));
    if (tridiag)
        for (int j = 0; shape && j < n; j++)
            for (int i = 0; i < j; i++) shape = shape && (i + 1 < j ? Gt(i, j) == T(0) : Gt(i, j) == Gt(j, i));
    if (!shape) bad(tridiag ? "QtHQ-not-symmetric-tridiagonal" : "QtHQ-not-hessenberg", 0, 0);
    else
    {
        e = fnorm(MatLD(toLD(Gt) - Q.transpose() * Hl * Q));
        if (!within(ctx, std::string(d.cls) + "/QtHQ", e, allow)) bad("QtHQ!=Q'HQ", e, allow);
    }
    // apply methods against explicit products
    auto& r = ctx.rng;
    const int m = (int) r.range(1, 5);
    Mat Y(n, m), Z(m, n);
    for (int i = 0; i < n; i++) for (int j = 0; j < m; j++) { Y(i, j) = T(r.gauss()); Z(j, i) = T(r.gauss()); }
    const MatLD Yl = toLD(Y), Zl = toLD(Z);
    const LD ya = C * n * u * fnorm(Yl), za = C * n * u * fnorm(Zl);
    {
        Vec y = Y.col(0);
        qr.apply_QY(y);
        e = fnorm(MatLD(toLD(y) - Q * Yl.col(0)));
        if (!within(ctx, std::string(d.cls) + "/apply", e, ya)) bad("apply_QY(vector)", e, ya);
        y = Y.col(0);
        qr.apply_QtY(y);
        e = fnorm(MatLD(toLD(y) - Q.transpose() * Yl.col(0)));
        if (!within(ctx, std::string(d.cls) + "/apply", e, ya)) bad("apply_QtY(vector)", e, ya);
    }
    // matrix forms: plain object, Map, and block of a larger matrix (outer stride != rows); outside of the block must stay untouched
    for (int form = 0; form < 3; form++)
    {
        const char* fn = form == 0 ? "" : (form == 1 ? "/map" : "/strided-block");
        for (int which = 0; which < 4; which++)
        {
            const bool left = which < 2;  // QY, QtY operate on n x m; YQ, YQt on m x n
            const Mat& src = left ? Y : Z;
            const int rr = (int) src.rows(), cc = (int) src.cols();
            Mat big = Mat::Constant(rr + 3, cc + 2, T(7));
            Mat plain = src;
            std::vector<T> buf(rr * cc);
            Eigen::Map<Mat> mp(buf.data(), rr, cc);
            mp = src;
            big.block(1, 1, rr, cc) = src;
            auto run = [&](auto&& arg) {
                if (which == 0) qr.apply_QY(arg);
                else if (which == 1) qr.apply_QtY(arg);
                else if (which == 2) qr.apply_YQ(arg);
                else qr.apply_YQt(arg);
            };
            Mat out;
            if (form == 0) { run(plain); out = plain; }
            else if (form == 1) { run(mp); out = mp; }
            else
            {
                run(big.block(1, 1, rr, cc));
                out = big.block(1, 1, rr, cc);
                Mat chk = big;
                chk.block(1, 1, rr, cc).setConstant(T(7));
                if ((chk.array() != T(7)).any()) bad((std::string("apply") + fn + "/wrote-outside-block").c_str(), 0, 0);
            }
            MatLD want = which == 0 ? MatLD(Q * Yl) : which == 1 ? MatLD(Q.transpose() * Yl) : which == 2 ? MatLD(Zl * Q) : MatLD(Zl * Q.transpose());
            static const char* NM[4] = {"apply_QY", "apply_QtY", "apply_YQ", "apply_YQt"};
            e = fnorm(MatLD(toLD(out) - want));
            const LD al = left ? ya : za;
            if (!within(ctx, std::string(d.cls) + "/apply", e, al)) bad((std::string(NM[which]) + "(matrix)" + fn).c_str(), e, al);
            ctx.count("apply_checks");
        }
    }
    if (tridiag)
    {
        // complex overload of matrix_QtHQ equals the real one
        Eigen::Matrix<std::complex<T>, Eigen::Dynamic, Eigen::Dynamic> Gc;
        if (pre == 1) Gc.setConstant(n, n, std::complex<T>(T(7), T(7)));
        else if (pre == 0) Gc.setConstant(n + 2, n + 1, std::complex<T>(T(7), T(7)));
        static_cast<const Spectra::TridiagQR<T>&>(static_cast<const Spectra::UpperHessenbergQR<T>&>(qr)).matrix_QtHQ(Gc);
        bool same = (Gc.rows() == n && Gc.cols() == n);
        for (int j = 0; same && j < n; j++)
            for (int i = 0; i < n; i++) same = same && (Gc(i, j).real() == Gt(i, j) && Gc(i, j).imag() == T(0));
        if (!same) bad("QtHQ-complex-overload-differs", 0, 0);
    }
}

// ---------------------------------------------------------------------------------- double shift
static void check_double(vf::Ctx& ctx, const Desc& d, const Mat& H, const Shift& sh)
{
    const int n = d.n;
    const LD u = unit<T>();
    const MatLD Hl = toLD(H);
    const LD hn = fnorm(Hl), sn = std::abs((LD) sh.s), tn = std::abs((LD) sh.t);
    auto bad = [&](const char* what, LD obs, LD al) {
        ctx.violation(std::string(d.cls) + "/" + what, desc_json(d, H, sh, what, obs, al));
    };
    Spectra::DoubleShiftQR<T> qr(H, sh.s, sh.t);
    Mat Qt = Mat::Identity(n, n);
    qr.apply_YQ(Qt);
    const MatLD Q = toLD(Qt);
    if (!all_finite(Q)) { bad("Q-not-finite", 0, 0); return; }
    LD e = orth_err(Q);
    if (!within(ctx, "DoubleShiftQR/orthogonality", e, C * n * u)) bad("Q-not-orthogonal", e, C * n * u);
    Mat Gt(n, n);
    if ((n + ctx.idx) % 3 == 1) Gt.setConstant(T(7));
    else if ((n + ctx.idx) % 3 == 2) Gt = Mat::Constant(n + 1, n + 2, T(7));
    qr.matrix_QtHQ(Gt);
    // the statement promises the similarity to n*eps*(||H|| + |s|); the double-shift step itself is independent of the shifts'
    // magnitude (only the direction of the first reflector depends on them)
    const LD allow = C * n * u * (hn + sn > 0 ? hn + sn : LD(1e-300L));
    const MatLD G = toLD(Gt);
    e = fnorm(MatLD(G - Q.transpose() * Hl * Q));
    if (!within(ctx, "DoubleShiftQR/QtHQ", e, allow)) bad("QtHQ!=Q'HQ", e, allow);
    // upper Hessenberg to rounding level (the bulge chase leaves rounding residue below the subdiagonal; the statement says "to a small multiple of n eps ||H||")
    LD low = 0;
    for (int j = 0; j < n; j++)
        for (int i = j + 2; i < n; i++) low = std::max(low, std::abs(G(i, j)));
    if (!within(ctx, "DoubleShiftQR/hessenberg", low, allow)) bad("QtHQ-not-hessenberg", low, allow);
    // first column of Q parallel to (H^2 - s H + t I) e_1
    VecLD x = Hl * Hl.col(0) - (LD) sh.s * Hl.col(0);
    x[0] += (LD) sh.t;
    const LD xs = hn * hn + sn * hn + tn;
    const LD xallow = C * n * u * xs;
    if (fnorm(x) > 4 * xallow)
    {
        VecLD q1 = Q.col(0);
        VecLD perp = x - q1 * q1.dot(x);
        e = fnorm(perp);
        if (!within(ctx, "DoubleShiftQR/first-column", e, xallow)) bad("first-column-not-parallel", e, xallow);
        ctx.count("first_column_checks");
    }
    else ctx.count("first_column_trivial");
    // apply_QtY(vector) and apply_YQ on map / strided block
    auto& r = ctx.rng;
    Vec y(n);
    for (int i = 0; i < n; i++) y[i] = T(r.gauss());
    const VecLD yl = toLD(y);
    qr.apply_QtY(y);
    e = fnorm(MatLD(toLD(y) - Q.transpose() * yl));
    const LD ya = C * n * u * fnorm(yl);
    if (!within(ctx, "DoubleShiftQR/apply", e, ya)) bad("apply_QtY(vector)", e, ya);
    const int m = (int) r.range(1, 5);
    Mat Z(m, n);
    for (int i = 0; i < n; i++) for (int j = 0; j < m; j++) Z(j, i) = T(r.gauss());
    const MatLD Zl = toLD(Z), want = Zl * Q;
    const LD za = C * n * u * fnorm(Zl);
    {
        Mat p = Z;
        qr.apply_YQ(p);
        e = fnorm(MatLD(toLD(p) - want));
        if (!within(ctx, "DoubleShiftQR/apply", e, za)) bad("apply_YQ(matrix)", e, za);
        std::vector<T> buf(m * n);
        Eigen::Map<Mat> mp(buf.data(), m, n);
        mp = Z;
        qr.apply_YQ(mp);
        e = fnorm(MatLD(toLD(Mat(mp)) - want));
        if (!within(ctx, "DoubleShiftQR/apply", e, za)) bad("apply_YQ(matrix)/map", e, za);
        Mat big = Mat::Constant(m + 3, n + 2, T(7));
        big.block(1, 1, m, n) = Z;
        qr.apply_YQ(big.block(1, 1, m, n));
        Mat out = big.block(1, 1, m, n);
        Mat chk = big;
        chk.block(1, 1, m, n).setConstant(T(7));
        if ((chk.array() != T(7)).any()) bad("apply/strided-block/wrote-outside-block", 0, 0);
        e = fnorm(MatLD(toLD(out) - want));
        if (!within(ctx, "DoubleShiftQR/apply-strided", e, za)) bad("apply_YQ(matrix)/strided-block", e, za);
        ctx.count("apply_checks", 3);
    }
}

// ---------------------------------------------------------------------------------- case table
// systematic part: all sizes <= 8 x all patterns x all shift kinds x (for n <= 8) all subdiagonal zero masks for the integer pattern;
// random part: sizes up to 40
static long n_systematic(bool thorough) { (void) thorough; return 0; }
long vf_ncases(const vf::Ctx& ctx) { (void) n_systematic; return ctx.thorough ? 60000 : 2400; }

void vf_run_case(vf::Ctx& ctx, long idx)
{
    auto& r = ctx.rng;
    const int cls = (int) (idx % 3);  // 0 hess, 1 tridiag, 2 double shift
    // a case holds several matrices so that process start-up is amortised
    const int reps = 6;
    for (int rep = 0; rep < reps; rep++)
    {
        Desc d;
        d.cls = cls == 0 ? "UpperHessenbergQR" : cls == 1 ? "TridiagQR" : "DoubleShiftQR";
        const int nmin = cls == 2 ? 3 : 2;
        d.n = r.coin(0.6) ? (int) r.range(nmin, 8) : (int) r.range(9, 40);
        d.pat = (int) r.range(0, 8);
        d.shift = (int) r.range(0, 5);
        if (d.pat == 1 && d.n > 10 && r.coin()) d.n = (int) r.range(nmin, 8);
        d.mask = (long) (r.next() & 0xffffffffffL);
        if (d.pat == 1 && d.n <= 8) d.mask = (idx / 3 * reps + rep) % (1L << (d.n - 1));  // sweeps every zero pattern over the run
        if (d.pat == 7 && r.coin(0.7)) d.shift = 1;                                          // zero diagonal with zero shift: exact zero pivots
        const bool tri = (cls == 1);
        Mat H = gen_matrix(ctx, d.n, d.pat, tri, d.mask);
        Shift sh = gen_shift(ctx, H, d.shift, cls == 2);
        if ((d.pat == 5) && (d.shift == 2)) sh.s = T(0), sh.t = T(0);  // huge shift times huge scale would overflow by construction
        if (cls == 2 && d.pat == 5) { sh.t = std::min(std::abs(sh.t), std::numeric_limits<T>::max() / T(16)) * (sh.t < 0 ? T(-1) : T(1)); }
        if (cls == 0) check_single<Spectra::UpperHessenbergQR<T>>(ctx, d, H, sh, false);
        else if (cls == 1) check_single<Spectra::TridiagQR<T>>(ctx, d, H, sh, true);
        else check_double(ctx, d, H, sh);
        ctx.count("evals");
        ctx.count(std::string("class/") + d.cls);
        ctx.count(std::string("pattern/") + PAT[d.pat]);
        ctx.count(std::string("shift/") + SHF[d.shift]);
        if (d.n <= 8) ctx.count("size<=8");
        // non-trivial: a matrix that is not diagonal/zero; distinct by (class, n, pattern, shift kind, mask, rng draw)
        if (d.pat != 8)
            ctx.nontriv(std::string(d.cls) + "/" + std::to_string(d.n) + "/" + std::to_string(d.pat) + "/" + std::to_string(d.shift) + "/" + std::to_string(d.mask) + "/" + std::to_string((LD) H(0, 0)) + "/" + std::to_string((LD) sh.s));
        if (ctx.want_sample && rep == 0)
            ctx.set_sample(vf::J().kv("class", d.cls).kv("scalar", Name<T>::s()).kv("n", d.n).kv("pattern", PAT[d.pat]).kv("shift_kind", SHF[d.shift]).kv("s", (LD) sh.s).kv("t", (LD) sh.t).kv("H", mat_str(H)).str());
    }
}
