// C01 - SymEigsSolver / HermEigsSolver / SymEigsShiftSolver hand back only genuine, orthonormal eigenpairs,
// whatever the outcome and the init()/compute() history. One real scalar type per build (-DC01_T=...).
#define VF_MAIN
#include "common/framework.hpp"
#include "common/oracle.hpp"
#include "common/gen.hpp"
#include "common/opwrap.hpp"
#include "common/solvers.hpp"
#include <Spectra/SymEigsSolver.h>
#include <Spectra/HermEigsSolver.h>
#include <Spectra/SymEigsShiftSolver.h>
#include <Spectra/MatOp/DenseSymMatProd.h>
#include <Spectra/MatOp/SparseSymMatProd.h>
#include <Spectra/MatOp/DenseHermMatProd.h>
#include <Spectra/MatOp/SparseHermMatProd.h>
#include <Spectra/MatOp/DenseSymShiftSolve.h>
#include <Spectra/MatOp/SparseSymShiftSolve.h>

#ifndef C01_T
#define C01_T double
#endif
#ifndef C01_GROUP
#define C01_GROUP 0   // 0: SymEigsSolver (dense, sparse, user op)  1: HermEigsSolver  2: SymEigsShiftSolver
#endif
using T = C01_T;
using CT = std::complex<T>;
using namespace vo;
using namespace vs;
using MatT = Eigen::Matrix<T, Eigen::Dynamic, Eigen::Dynamic>;
using VecT = Eigen::Matrix<T, Eigen::Dynamic, 1>;
using MatCT = Eigen::Matrix<CT, Eigen::Dynamic, Eigen::Dynamic>;
using VecCT = Eigen::Matrix<CT, Eigen::Dynamic, 1>;
using SpT = Eigen::SparseMatrix<T>;
using SpCT = Eigen::SparseMatrix<CT>;

const char* vf_driver() { return "c01_sym"; }

// rounding allowances (DESIGN 2.5); frozen after calibration on the repaired tree
static const LD C_NORM = 100, C_RES = 200, C_ORTH = 250;   // C_ORTH: worst observed 114 (long double shift-and-invert run, thorough tier)

// a user-defined operator class (not one of the library's wrappers): plain loops over a private dense copy
struct UserSymOp
{
    using Scalar = T;
    MatT A;
    explicit UserSymOp(const MatT& a) : A(a) {}
    Eigen::Index rows() const { return A.rows(); }
    Eigen::Index cols() const { return A.cols(); }
    void perform_op(const T* x, T* y) const
    {
        const Eigen::Index n = A.rows();
        for (Eigen::Index i = 0; i < n; i++)
        {
            T s = 0;
            for (Eigen::Index j = 0; j < n; j++) s += A(i, j) * x[j];
            y[i] = s;
        }
    }
};

static const char* KIND[] = {"SymEigsSolver<DenseSymMatProd>", "SymEigsSolver<SparseSymMatProd>", "SymEigsSolver<UserOp>", "HermEigsSolver<DenseHermMatProd>",
                             "HermEigsSolver<SparseHermMatProd>", "SymEigsShiftSolver<DenseSymShiftSolve>", "SymEigsShiftSolver<SparseSymShiftSolve>"};

struct Problem
{
    int kind, cls, n, nev, ncv;
    double scale;
    bool clean = true;       // drawn from the domain on which the strict oracle is silent on the repaired tree (DESIGN section 4)
    std::string tag;         // corpus label (empty in the seeded exploration)
    bool tight = false;      // second corpus part: well-behaved classes far from unit norm, tight tolerances, long runs
    MatCLD AL;               // what the operator holds, exactly, in extended precision
    Eigen::VectorXd spec;    // reference spectrum (double is plenty: only norms and gaps are taken from it)
    Eigen::MatrixXcd evecs;  // reference eigenvectors (start-vector generator)
    LD normA = 0;            // ||A||_2
    bool shift = false;
    T sigma = 0;
    LD normAs = 0, dmin = 0;  // ||A - sigma I||_2, distance from sigma to the spectrum
};

struct ComputeArgs { SortRule sel; long maxit; T tol; SortRule sort; };

static std::string pjson(const Problem& P, const std::string& word, const ComputeArgs& a, const char* startkind)
{
    return vf::J().kv("solver", KIND[P.kind]).kv("scalar", Name<T>::s()).kv("class", vg::SYM_CLASS[P.cls]).kv("n", P.n).kv("nev", P.nev).kv("ncv", P.ncv)
        .kv("scale", P.scale).kv("sigma", (LD) P.sigma).kv("history", word).kv("selection", rule_name(a.sel)).kv("maxit", a.maxit).kv("tol", (LD) a.tol)
        .kv("sorting", rule_name(a.sort)).kv("start", startkind).str();
}

// conversion helpers for start vectors
static inline T vf_cast_real(const std::complex<double>& z) { return T(z.real()); }
template <class S> struct CastTo;
template <> struct CastTo<T> { static T f(const std::complex<double>& z) { return T(z.real()); } };
template <> struct CastTo<CT> { static CT f(const std::complex<double>& z) { return CT(T(z.real()), T(z.imag())); } };
struct vf_cast_t
{
    std::complex<double> z;
    operator T() const { return T(z.real()); }
    operator CT() const { return CT(T(z.real()), T(z.imag())); }
};
static inline vf_cast_t vf_cast(const std::complex<double>& z) { return vf_cast_t{z}; }

// Oracle on whatever the accessors return after a compute()
template <class Solver>
static void judge(vf::Ctx& ctx, const Problem& P, const Solver& es, long ret, long restarts, const ComputeArgs& a, const std::string& shape,
                  const std::string& word, const char* startkind)
{
    const LD u = unit<T>();
    auto evals = es.eigenvalues();
    auto evecs = es.eigenvectors();
    const long k = (long) evals.size();
    const std::string pre = std::string(KIND[P.kind]) + "/";
    auto bad = [&](const char* sub, LD obs, LD allow, long idx) {
        std::string j = pjson(P, word, a, startkind);
        j.pop_back();
        j += "," + vf::J().kv("info", info_name(es.info())).kv("returned", k).kv("restarts", restarts).kv("pair", idx).kv("observed", obs).kv("allowed", allow).str().substr(1);
        if (P.tag.empty()) ctx.violation(pre + sub + "/" + shape, j);
        else ctx.violation(P.tag + "/" + (std::string(sub) == "non-finite" ? "non-finite-result" : std::string(sub) == "shape-mismatch" ? "shape-mismatch" : "inaccurate-pairs"), j);
    };
    ctx.count(std::string("outcome/") + info_name(es.info()));
    if (k == 0) return;
    ctx.count("pairs_judged", k);
    if (evecs.cols() != k || evecs.rows() != P.n) { bad("shape-mismatch", (LD) evecs.cols(), (LD) k, -1); return; }
    const MatCLD X = evecs.template cast<CLD>();
    bool finite = all_finite(X);
    for (long i = 0; i < k; i++) finite = finite && std::isfinite((double) evals[i]);
    if (!finite) { bad("non-finite", 0, 0, -1); return; }
    const LD grow = std::sqrt((LD) (1 + restarts));
    const LD eps23 = std::pow(u, LD(2) / 3);
    const LD nn = std::max(P.n, 10), nc = std::max(P.ncv, 10);   // rounding does not shrink below a few dozen units for tiny problems
    for (long i = 0; i < k; i++)
    {
        const LD th = (LD) evals[i];
        const LD nx = X.col(i).norm();
        if (!within(ctx, std::string(P.clean ? "" : "corpus:") + "unit-norm", std::abs(nx - 1), C_NORM * nc * u * grow)) bad("unit-norm", std::abs(nx - 1), C_NORM * nc * u * grow, i);
        const LD res = fnorm(VecCLD(P.AL * X.col(i) - CLD(th) * X.col(i)));
        LD allow;
        if (!P.shift)
            allow = (LD) a.tol * std::max(eps23, std::abs(th)) + C_RES * nn * u * P.normA * grow;
        else
        {
            const LD d = std::abs(th - (LD) P.sigma);
            const LD kappa = P.normAs / P.dmin;
            allow = (LD) a.tol * P.normAs * std::max(LD(1), eps23 * d) + C_RES * nn * u * kappa * P.normAs * std::max(LD(1), d / P.dmin) * grow;
        }
        {
            // how much of the rounding part of the allowance is used (calibration of C_RES)
            const LD tolpart = P.shift ? (LD) a.tol * P.normAs * std::max(LD(1), eps23 * std::abs(th - (LD) P.sigma)) : (LD) a.tol * std::max(eps23, std::abs(th));
            if (P.clean && allow > tolpart) ctx.maxratio(P.shift ? "rounding-part-used-shift" : "rounding-part-used", std::max(LD(0), res - tolpart) / (allow - tolpart));
        }
        if (!within(ctx, std::string(P.clean ? "" : "corpus:") + (P.shift ? "residual-shift" : "residual"), res, allow)) bad("residual", res, allow, i);
    }
    MatCLD G = X.adjoint() * X;
    G.diagonal().array() -= CLD(1);
    const LD oe = G.cwiseAbs().maxCoeff(), oa = C_ORTH * nc * u * grow;
    if (!within(ctx, std::string(P.clean ? "" : "corpus:") + "orthonormal", oe, oa)) bad("orthonormal", oe, oa, -1);
    (void) ret;
}

// run one random history on a constructed solver
template <class Solver, class Scalar>
static void run_history(vf::Ctx& ctx, const Problem& P, Solver& es, vw::OpCtl& ctl)
{
    auto& r = ctx.rng;
    using VecS = Eigen::Matrix<Scalar, Eigen::Dynamic, 1>;
    const bool thor = ctx.thorough && P.clean;   // corpus cases are the same in both tiers
    const int len = (int) r.range(1, thor ? 8 : 4);
    std::string word;
    bool inited = false, computed_since_init = false;
    const auto tols = TolSet<T>::get();
    const std::vector<long> maxits = {0, 1, 2, 3, 5, 10, thor ? 1000 : 300, thor ? 1000 : 300, thor ? 1000 : 300};
    const char* startkind = "default";
    long restarts_total = 0;
    bool nontrivial = false;
    for (int step = 0; step <= len; step++)
    {
        // first step is always an init; the word always ends with a compute
        char op;
        if (!inited) op = r.coin(0.5) ? 'I' : 'V';
        else if (step == len) op = 'C';
        else { const double x = r.uni(); op = x < 0.55 ? 'C' : (x < 0.8 ? 'I' : 'V'); }
        word += op;
        if (op == 'I')
        {
            es.init();
            startkind = "default";
            inited = true; computed_since_init = false;
        }
        else if (op == 'V')
        {
            VecS v0(P.n);
            const int sk = (P.clean || P.tight) ? 0 : (int) r.range(0, 3);
            if (sk == 0) { for (int i = 0; i < P.n; i++) v0[i] = Scalar(T(r.gauss())); startkind = "gaussian"; }
            else if (sk == 1)
            {
                const int j = (int) r.range(0, P.n - 1);
                for (int i = 0; i < P.n; i++) v0[i] = CastTo<Scalar>::f(P.evecs(i, j));
                startkind = "eigenvector";
            }
            else if (sk == 2)
            {
                const int d = (int) r.range(1, std::max(1, P.ncv - 1));
                v0.setZero();
                for (int q = 0; q < d; q++)
                {
                    const int j = (int) r.range(0, P.n - 1);
                    const double w = r.gauss();
                    for (int i = 0; i < P.n; i++) v0[i] += CastTo<Scalar>::f(P.evecs(i, j) * w);
                }
                startkind = "invariant-subspace";
            }
            else
            {
                // vector in the null space when there is one, else the eigenvector of the eigenvalue smallest in modulus
                int j = 0;
                for (int q = 1; q < P.n; q++) if (std::abs(P.spec[q]) < std::abs(P.spec[j])) j = q;
                for (int i = 0; i < P.n; i++) v0[i] = CastTo<Scalar>::f(P.evecs(i, j));
                startkind = "smallest-modulus-eigenvector";
            }
            if (v0.norm() == 0) v0[0] = Scalar(1);
            try { es.init(v0.data()); }
            catch (const std::invalid_argument&) { ctx.count("init_rejected"); es.init(); startkind = "default"; }
            inited = true; computed_since_init = false;
        }
        else
        {
            ComputeArgs a{r.pick(SYM_SELECT), r.pick(maxits), r.pick(tols), r.pick(SYM_SORT)};
            if (P.tight) { a.maxit = 1000; a.tol = r.pick(std::vector<T>{T(1e-11), T(1e-12), T(1e-13), T(1e-14)}); }
            const std::string shape = computed_since_init ? "after-compute" : "after-init";
            const long it0 = (long) es.num_iterations();
            ctl.limit = ctl.count + 8 * (4 + 2 * (long) P.ncv * (a.maxit + 2));  // termination guard only; the work bound itself is C13's property
            long ret = -1;
            bool ok = false;
            try { ret = (long) es.compute(a.sel, a.maxit, a.tol, a.sort); ok = true; }
            catch (const vw::WorkBoundExceeded&) { ctx.inconclusive("work guard hit (see C13)"); ctx.count("compute_exception/work-guard"); return; }
            catch (const std::invalid_argument&) { ctx.count("compute_exception/invalid_argument"); }
            catch (const std::runtime_error&) { ctx.count("compute_exception/runtime_error"); }
            catch (const std::logic_error&) { ctx.count("compute_exception/logic_error"); }
            ctl.limit = -1;
            ctx.count("computes");
            ctx.count("computes/" + shape);
            if (!ok) { computed_since_init = false; inited = false; continue; }   // nothing is handed back; a fresh init follows
            const long restarts = (long) es.num_iterations() - it0 - 1;
            restarts_total += std::max(0L, restarts);
            judge(ctx, P, es, ret, std::max(0L, (long) es.num_iterations() - 1), a, shape, word, startkind);
            if (restarts >= 1 && ret >= 1) nontrivial = true;
            computed_since_init = true;
            if (ctx.want_sample && ctx.sample.empty())
            {
                std::string j = pjson(P, word, a, startkind);
                j.pop_back();
                ctx.set_sample(j + "," + vf::J().kv("info", info_name(es.info())).kv("returned", ret).kv("restarts", restarts).kv("operator_applications", ctl.count).str().substr(1));
            }
        }
    }
    // Start-vector scale invariance (exploration only; a probe of its own at the end of the history, not judged for accuracy): init(v0) and init(2^e v0) followed by
    // the same compute() must give the same bits - the start vector is normalised first, and scaling by a power of two commutes with every rounding (no over/underflow
    // at these sizes), so anything that still sees the norm of the user's vector (a threshold taken before the normalisation, say) shows as a difference. v0 is a
    // reference eigenvector perturbed by 1e-2..1e-6 (tiny first residual: where such thresholds act) or gaussian.
    if (P.clean && P.evecs.cols() == P.n)
    {
        VecS v0(P.n);
        const bool near = r.coin(0.7);
        const double delta = near ? std::pow(10.0, -(double) r.range(2, 6)) : 1.0;
        const int j = (int) r.range(0, P.n - 1);
        for (int i = 0; i < P.n; i++) v0[i] = (near ? CastTo<Scalar>::f(P.evecs(i, j)) : Scalar(0)) + Scalar(T(delta * r.gauss() / std::sqrt((double) P.n)));
        // (float: smaller factors, so that no square of a component leaves the normal range - that would break the exactness argument, not the library)
        const int e2 = (int) (sizeof(T) == 4 ? r.pick(std::vector<long>{-20, -10, 10, 20}) : r.pick(std::vector<long>{-45, -40, -20, 20, 40, 45}));
        const VecS v1 = v0 * Scalar(T(std::ldexp(1.0, e2)));
        ComputeArgs a{r.pick(SYM_SELECT), r.pick(std::vector<long>{2, 10, 50}), T(1e-8), SYM_SORT[0]};
        auto run = [&](const VecS& v, long& ret, long& nit, long& nop, decltype(es.eigenvalues())& ev, decltype(es.eigenvectors())& U) {
            ctl.limit = ctl.count + 8 * (4 + 2 * (long) P.ncv * (a.maxit + 2));
            bool ok = false;
            try { es.init(v.data()); ret = (long) es.compute(a.sel, a.maxit, a.tol, a.sort); ok = true; }
            catch (const vw::WorkBoundExceeded&) {}
            catch (const std::exception&) {}
            ctl.limit = -1;
            if (ok) { nit = (long) es.num_iterations(); nop = (long) es.num_operations(); ev = es.eigenvalues(); U = es.eigenvectors(); }
            return ok;
        };
        long r0 = -1, r1 = -1, i0 = 0, i1 = 0, o0 = 0, o1 = 0;
        decltype(es.eigenvalues()) ev0, ev1;
        decltype(es.eigenvectors()) U0, U1;
        const bool ok0 = run(v0, r0, i0, o0, ev0, U0), ok1 = run(v1, r1, i1, o1, ev1, U1);
        ctx.count("start_vector_scale_probes");
        if (near) ctx.count("start_vector_scale_probes/near-eigenvector");
        if (ok0 && ok1)
        {
            bool same = r0 == r1 && i0 == i1 && o0 == o1 && ev0.size() == ev1.size() && U0.rows() == U1.rows() && U0.cols() == U1.cols();
            for (Eigen::Index q = 0; same && q < ev0.size(); q++) same = ev0[q] == ev1[q];
            for (Eigen::Index c = 0; same && c < U0.cols(); c++) for (Eigen::Index q = 0; same && q < U0.rows(); q++) same = U0(q, c) == U1(q, c);
            if (!same)
                ctx.violation(std::string(KIND[P.kind]) + "/result-depends-on-the-norm-of-the-start-vector",
                              vf::J().kv("solver", KIND[P.kind]).kv("n", P.n).kv("nev", P.nev).kv("ncv", P.ncv).kv("start", near ? "eigenvector+perturbation" : "gaussian").kv("perturbation", delta)
                                  .kv("scaled_by_2^", (long) e2).kv("returned", r0).kv("returned_scaled", r1).kv("iterations", i0).kv("iterations_scaled", i1).kv("operations", o0).kv("operations_scaled", o1).str());
        }
        else if (ok0 != ok1) ctx.violation(std::string(KIND[P.kind]) + "/result-depends-on-the-norm-of-the-start-vector", vf::J().kv("solver", KIND[P.kind]).kv("what", "one of the two runs threw").str());
    }
    ctx.count("restarts", restarts_total);
    ctx.count("operator_applications", ctl.total);
    ctx.count("evals");
    ctx.count(std::string("kind/") + KIND[P.kind]);
    ctx.count(std::string("class/") + vg::SYM_CLASS[P.cls]);
    ctx.count("history_length/" + std::to_string(word.size()));
    if (nontrivial)
        ctx.nontriv(std::string(KIND[P.kind]) + "/" + std::to_string(P.cls) + "/" + std::to_string(P.n) + "/" + std::to_string(P.nev) + "/" + std::to_string(P.ncv) + "/" + word + "/" +
                    std::to_string(P.scale) + "/" + std::to_string((double) P.AL(0, 0).real()));
}

static const int GROUP_KINDS[3][3] = {{0, 1, 2}, {3, 4, -1}, {5, 6, -1}};
static const int GROUP_NK[3] = {3, 2, 2};
static const char* KSHORT[] = {"sym-dense", "sym-sparse", "sym-userop", "herm-dense", "herm-sparse", "symshift-dense", "symshift-sparse"};
static long n_explore(const vf::Ctx& ctx) { return (ctx.thorough ? 4000L : 330L) * GROUP_NK[C01_GROUP]; }
// fixed regression corpus over the finding-prone domain: double only, independent of VERIF_SEED
// second part (ids from 70 per kind upward): the well-behaved matrix classes at norms 1e-8..1e-3 and 1e3..1e8, tight tolerances, runs of up to 1000 restarts -
// the absolute thresholds of the factorization make this domain finding-prone (DESIGN 4.2), but most of its members pass, and they are the regression net for
// anything that only matters far from unit norm
static long n_corpus1() { return sizeof(T) == 8 ? 70L * GROUP_NK[C01_GROUP] : 0L; }
static long n_corpus() { return sizeof(T) == 8 ? (70L + 60L) * GROUP_NK[C01_GROUP] : 0L; }
long vf_ncases(const vf::Ctx& ctx) { return n_explore(ctx) + n_corpus(); }

static bool is_clean_class(int cls) { return cls == 0 || cls == 6 || cls == 7 || cls == 10 || cls == 11; }

void vf_run_case(vf::Ctx& ctx, long idx)
{
    auto& r = ctx.rng;
    Problem P;
    const bool corpus = idx >= n_explore(ctx);
    const long ci = idx - n_explore(ctx);
    P.kind = GROUP_KINDS[C01_GROUP][(corpus ? ci : idx) % GROUP_NK[C01_GROUP]];
    if (corpus)
    {
        ctx.case_rng("c01_corpus", ci, true);
        P.tight = ci >= n_corpus1();
        P.tag = std::string(P.tight ? "corpus/scaled/" : "corpus/") + KSHORT[P.kind] + "/" + std::to_string(ci);
        ctx.set_tag(P.tag);
    }
    P.clean = !corpus;
    const int nmax = ctx.thorough && !corpus ? ((sizeof(T) == 8 && r.coin(0.15)) ? 200 : 80) : 60;
    // the strict oracle needs n >= 5: for tiny n the first Lanczos vectors are not re-orthogonalised (Arnoldi::init), the loss is u*||A||/beta_1;
    // tiny problems are exercised in the corpus and by C13
    vg::Config c = vg::sym_config(r, corpus && !P.tight ? 2 : 5, nmax);
    P.n = c.n; P.nev = c.nev; P.ncv = c.ncv;
    const int dec = sizeof(T) == 4 ? 4 : 8;
    if (P.clean)
    {
        // domain of the strict oracle: operator norm within two decades of 1, no exact or numerical rank deficiency / repeated eigenvalues
        static const int CLEAN[] = {0, 6, 7, 10, 11};
        P.cls = CLEAN[r.range(0, 4)];
        P.scale = r.coin(0.6) ? 1.0 : std::pow(10.0, (double) r.range(-2, 2));
    }
    else if (P.tight)
    {
        static const int CLEAN[] = {0, 6, 7, 10, 11};
        P.cls = CLEAN[r.range(0, 4)];
        P.scale = std::pow(10.0, (double) (r.coin(0.7) ? -r.range(3, 12) : r.range(3, 8)));
    }
    else
    {
        // everything else: breakdown-prone classes, far-from-unit scales
        do
        {
            P.cls = (int) r.range(0, vg::N_SYM_CLASS - 1);
            P.scale = r.coin(0.4) ? 1.0 : std::pow(10.0, (double) r.range(-dec, dec));
        } while (is_clean_class(P.cls) && P.scale >= 1e-2 && P.scale <= 1e2 && r.coin(0.8));
    }
    const bool herm = (P.kind == 3 || P.kind == 4);
    P.shift = (P.kind >= 5);
    MatT A;
    MatCT AH;
    if (!herm)
    {
        A = vg::sym_matrix(r, P.n, P.cls, P.scale).cast<T>();
        P.AL = A.template cast<CLD>();
        Eigen::SelfAdjointEigenSolver<Eigen::MatrixXd> ref(A.template cast<double>());
        P.spec = ref.eigenvalues();
        P.evecs = ref.eigenvectors().cast<std::complex<double>>();
    }
    else
    {
        AH = vg::herm_matrix(r, P.n, P.cls, P.scale).cast<CT>();
        P.AL = AH.template cast<CLD>();
        Eigen::SelfAdjointEigenSolver<Eigen::MatrixXcd> ref(AH.template cast<std::complex<double>>());
        P.spec = ref.eigenvalues();
        P.evecs = ref.eigenvectors();
    }
    P.normA = std::max(std::abs(P.spec[0]), std::abs(P.spec[P.n - 1]));
    if (P.shift)
    {
        // sigma at a prescribed relative distance (1e-1 .. 1e-6 of the spread) from an eigenvalue, never on one
        const double spread = std::max(P.spec[P.n - 1] - P.spec[0], 1e-300 + std::abs(P.spec[0]) * 1e-3);
        const int j = (int) r.range(0, P.n - 1);
        const double rel = (P.clean || P.tight) ? (r.coin() ? 0.1 : (r.coin() ? 0.03 : 0.01)) : std::pow(10.0, -(double) r.range(1, sizeof(T) == 4 ? 3 : 6));
        double s = P.spec[j] + (r.coin() ? 1 : -1) * rel * (spread > 0 ? spread : 1.0);
        if (r.coin(0.2)) s = P.spec[0] - spread * r.uni(0.05, 0.5);
        P.sigma = T(s);
        P.normAs = 0; P.dmin = std::numeric_limits<LD>::infinity();
        for (int q = 0; q < P.n; q++) { const LD d = std::abs((LD) P.spec[q] - (LD) P.sigma); P.normAs = std::max(P.normAs, d); P.dmin = std::min(P.dmin, d); }
        if (!(P.dmin > 1e3L * unit<T>() * P.normAs)) { ctx.count("skipped_shift_on_eigenvalue"); ctx.count("evals"); return; }
    }
    vw::OpCtl ctl;
    // storage options of the library's wrappers (exploration cases only, chosen from the case number so that no random draw is spent): the default
    // (Lower, ColMajor, full symmetric array), or Upper / RowMajor with ONLY the documented triangle meaningful - the other one holds 7s (dense) or is not stored (sparse)
    const int variant = corpus ? 0 : (int) (idx / GROUP_NK[C01_GROUP]) % 4;
    ctx.count(variant == 1 ? "wrapper_options/Upper" : (variant == 3 ? "wrapper_options/RowMajor" : "wrapper_options/default"));
    auto junk_lower = [&](auto M) { for (int j = 0; j < P.n; j++) for (int i = j + 1; i < P.n; i++) M(i, j) = typename decltype(M)::Scalar(7); return M; };
    auto junk_upper = [&](auto M) { for (int j = 0; j < P.n; j++) for (int i = 0; i < j; i++) M(i, j) = typename decltype(M)::Scalar(7); return M; };
    (void) junk_lower; (void) junk_upper;
    try
    {
        if (variant == 1 || variant == 3)
        {
            bool done = true;
            switch (P.kind)
            {
#if C01_GROUP == 0
                case 0: { MatT Au = junk_lower(A); vw::Wrap<Spectra::DenseSymMatProd<T, Eigen::Upper>> op(&ctl, Au); Spectra::SymEigsSolver<decltype(op)> es(op, P.nev, P.ncv); run_history<decltype(es), T>(ctx, P, es, ctl); break; }
                case 1: { SpT S = SpT(A.sparseView()).template triangularView<Eigen::Upper>(); vw::Wrap<Spectra::SparseSymMatProd<T, Eigen::Upper>> op(&ctl, S); Spectra::SymEigsSolver<decltype(op)> es(op, P.nev, P.ncv); run_history<decltype(es), T>(ctx, P, es, ctl); break; }
#elif C01_GROUP == 1
                case 3: { auto Au = junk_lower(AH); vw::Wrap<Spectra::DenseHermMatProd<CT, Eigen::Upper>> op(&ctl, Au); Spectra::HermEigsSolver<decltype(op)> es(op, P.nev, P.ncv); run_history<decltype(es), CT>(ctx, P, es, ctl); break; }
#else
                case 5:
                    if (variant == 1) { MatT Au = junk_lower(A); vw::Wrap<Spectra::DenseSymShiftSolve<T, Eigen::Upper>> op(&ctl, Au); Spectra::SymEigsShiftSolver<decltype(op)> es(op, P.nev, P.ncv, P.sigma); run_history<decltype(es), T>(ctx, P, es, ctl); }
                    else { Eigen::Matrix<T, Eigen::Dynamic, Eigen::Dynamic, Eigen::RowMajor> Ar = junk_upper(A); vw::Wrap<Spectra::DenseSymShiftSolve<T, Eigen::Lower, Eigen::RowMajor>> op(&ctl, Ar); Spectra::SymEigsShiftSolver<decltype(op)> es(op, P.nev, P.ncv, P.sigma); run_history<decltype(es), T>(ctx, P, es, ctl); }
                    break;
                case 6: { SpT S = SpT(A.sparseView()).template triangularView<Eigen::Upper>(); vw::Wrap<Spectra::SparseSymShiftSolve<T, Eigen::Upper>> op(&ctl, S); Spectra::SymEigsShiftSolver<decltype(op)> es(op, P.nev, P.ncv, P.sigma); run_history<decltype(es), T>(ctx, P, es, ctl); break; }
#endif
                default: done = false; break;
            }
            if (done) goto finished;
        }
        switch (P.kind)
        {
#if C01_GROUP == 0
            case 0: { vw::Wrap<Spectra::DenseSymMatProd<T>> op(&ctl, A); Spectra::SymEigsSolver<decltype(op)> es(op, P.nev, P.ncv); run_history<decltype(es), T>(ctx, P, es, ctl); break; }
            case 1: { SpT S = A.sparseView(); vw::Wrap<Spectra::SparseSymMatProd<T>> op(&ctl, S); Spectra::SymEigsSolver<decltype(op)> es(op, P.nev, P.ncv); run_history<decltype(es), T>(ctx, P, es, ctl); break; }
            case 2: { vw::Wrap<UserSymOp> op(&ctl, A); Spectra::SymEigsSolver<decltype(op)> es(op, P.nev, P.ncv); run_history<decltype(es), T>(ctx, P, es, ctl); break; }
#elif C01_GROUP == 1
            case 3: { vw::Wrap<Spectra::DenseHermMatProd<CT>> op(&ctl, AH); Spectra::HermEigsSolver<decltype(op)> es(op, P.nev, P.ncv); run_history<decltype(es), CT>(ctx, P, es, ctl); break; }
            case 4: { SpCT S = AH.sparseView(); vw::Wrap<Spectra::SparseHermMatProd<CT>> op(&ctl, S); Spectra::HermEigsSolver<decltype(op)> es(op, P.nev, P.ncv); run_history<decltype(es), CT>(ctx, P, es, ctl); break; }
#else
            case 5: { vw::Wrap<Spectra::DenseSymShiftSolve<T>> op(&ctl, A); Spectra::SymEigsShiftSolver<decltype(op)> es(op, P.nev, P.ncv, P.sigma); run_history<decltype(es), T>(ctx, P, es, ctl); break; }
            case 6: { SpT S = A.sparseView(); vw::Wrap<Spectra::SparseSymShiftSolve<T>> op(&ctl, S); Spectra::SymEigsShiftSolver<decltype(op)> es(op, P.nev, P.ncv, P.sigma); run_history<decltype(es), T>(ctx, P, es, ctl); break; }
#endif
            default: break;
        }
    }
    catch (const std::invalid_argument& e)
    {
        // the shift solver refused the shift (singular to working precision): inconclusive for this property
        ctx.inconclusive(std::string("operator refused input: ") + e.what());
        ctx.count("evals");
    }
finished:
    if (!ctl.bad.empty())
        ctx.violation((P.tag.empty() ? std::string(KIND[P.kind]) : P.tag) + "/operator-buffers", vf::J().kv("what", ctl.bad).kv("n", P.n).kv("ncv", P.ncv).str());
}
