// C13 - compute() is memory-safe, stays within its work bound, hands the operator valid buffers and never returns NaN/Inf.
// (A) hostile workload over the solver zoo (+ PartialSVDSolver); (B) small-scope enumeration of nev_adjusted()/restart() through the guarded friend.
// One solver group per build (-DZOO_GROUP=0|1|2); built as `asan` (Eigen assertions on) and `asan-ndebug` (as a release build).
#define VF_MAIN
#include "common/fachook.hpp"
#include "common/framework.hpp"
#include "common/zoo.hpp"
#include <Spectra/contrib/PartialSVDSolver.h>

using T = double;
using namespace vz;
using namespace vo;
const char* vf_driver() { return "c13_safety"; }

static const char* HOSTILE_EXTRA[] = {"as-generated", "zero-matrix", "identity", "scaled-identity", "rank-one", "exact-key-ties"};

// ---------------------------------------------------------------------------------------------------- (A) hostile workload
template <class Fac>
static void run_hostile(vf::Ctx& ctx, const Fac& fac, const std::string& tag, const char* extra)
{
    using Scalar = typename Fac::Scalar;
    using Vec = Eigen::Matrix<Scalar, Eigen::Dynamic, 1>;
    auto& r = ctx.rng;
    const auto& d = fac.d;
    const std::vector<T> tols = {1e-14, 1e-10, 1e-6, 1e-3};
    const std::vector<long> maxits = {0, 1, 2, 3, 5, 10, 50, 300};
    const SortRule sel = r.pick(fac.select_rules()), srt = r.pick(fac.sort_rules());
    const long maxit = r.pick(maxits);
    const T tol = r.pick(tols);
    const int sk = (int) r.range(0, 3);
    static const char* SK[] = {"default", "gaussian", "unit-vector", "constant"};
    auto key = [&](const char* what) { return tag.empty() ? std::string(FAMILY[d.family]) + "/" + what : tag + "/" + what; };
    auto info = [&]() {
        return vf::J().kv("solver", FAMILY[d.family]).kv("class", d.classname).kv("variant", extra).kv("n", d.n).kv("nev", d.nev).kv("ncv", d.ncv).kv("scale", d.scale)
            .kv("sigma", (double) d.sigma).kv("selection", rule_name(sel)).kv("maxit", maxit).kv("tol", (double) tol).kv("sorting", rule_name(srt)).kv("start", SK[sk]);
    };
    std::unique_ptr<typename Fac::Ops> ops;
    std::unique_ptr<typename Fac::Solver> es;
    try { ops = fac.make_ops(); es = fac.make_solver(*ops); }
    catch (const std::invalid_argument&) { ctx.count("operator_refused_input"); ctx.count("evals"); return; }   // singular shift etc.: documented rejection
    catch (const std::runtime_error&) { ctx.count("operator_refused_input"); ctx.count("evals"); return; }
    vw::OpCtl& ctl = ops->main_ctl();
    // the statement's bound on operator applications from init() to the end of compute(); the complex-shift solver's 2*nev probe solves are outside it
    const long bound = 2 + 2 * (long) d.ncv * (maxit + 1);
    std::string outcome = "ok";
    long ret = -1;
    try
    {
        ctl.reset();
        ctl.limit = bound + 2 * d.nev + 64;   // hard stop a little above the bound so that the excess can be reported with its size
        if (sk == 0) es->init();
        else
        {
            Vec v(d.n);
            for (int i = 0; i < d.n; i++) v[i] = sk == 1 ? Scalar(T(r.gauss())) : (sk == 2 ? Scalar(T(i == d.n / 2 ? 1 : 0)) : Scalar(T(1)));
            es->init(v.data());
        }
        ret = (long) es->compute(sel, maxit, tol, srt);
    }
    catch (const vw::WorkBoundExceeded& e) { outcome = "work-bound"; }
    catch (const std::invalid_argument&) { outcome = "invalid_argument"; }
    catch (const std::runtime_error&) { outcome = "runtime_error"; }
    catch (const std::logic_error&) { outcome = "logic_error"; }
    catch (const std::exception& e) { outcome = std::string("other:") + typeid(e).name(); }
    ctl.limit = -1;
    ctx.count("outcome/" + outcome);
    ctx.count("operator_applications", ctl.count);
    if (!ctl.bad.empty()) ctx.violation(key("operator-buffers"), info().kv("what", ctl.bad).str());
    if (outcome == "work-bound" || (outcome == "ok" && ctl.iteration_count() > bound))
        ctx.violation(key("work-bound-exceeded"), info().kv("bound", bound).kv("applications", ctl.iteration_count()).str());
    else if (outcome.rfind("other:", 0) == 0)
        ctx.violation(key("undocumented-exception-type"), info().kv("type", outcome).str());
    else if (outcome == "ok")
    {
        ctx.maxratio("applications/bound", (LD) ctl.iteration_count() / (LD) bound);
        const CompInfo inf = es->info();
        if (inf != CompInfo::Successful && inf != CompInfo::NotConverging) ctx.violation(key("info-after-compute"), info().kv("info", info_name(inf)).str());
        auto ev = es->eigenvalues();
        auto U = es->eigenvectors();
        bool finite = all_finite(U);
        for (long i = 0; i < (long) ev.size(); i++) finite = finite && std::isfinite((double) std::abs(ev[i]));
        if (!finite) ctx.violation(key("non-finite-result"), info().kv("info", info_name(inf)).kv("returned", ret).str());
        ctx.count("pairs_checked_finite", (long) ev.size());
    }
    // the same run once more with a failing dense eigen kernel: the k-th iteration-limit question is answered with 0 (guarded failpoint), so a Ritz-pair
    // extraction gives up in the middle of the iteration. Judged exactly as above: a documented exception type or finite results, nothing else.
    if (outcome == "ok" || outcome == "runtime_error")
    {
        vf::Rng r2(r.next());
        vfk::arm(r2.range(1, 10));
        std::string o2 = "ok";
        long ret2 = -1;
        try
        {
            ctl.reset();
            ctl.limit = bound + 2 * d.nev + 64;
            es->init();
            ret2 = (long) es->compute(sel, maxit, tol, srt);
        }
        catch (const vw::WorkBoundExceeded& e) { o2 = "work-bound"; }
        catch (const std::invalid_argument&) { o2 = "invalid_argument"; }
        catch (const std::runtime_error&) { o2 = "runtime_error"; }
        catch (const std::logic_error&) { o2 = "logic_error"; }
        catch (const std::exception& e) { o2 = std::string("other:") + typeid(e).name(); }
        catch (...) { o2 = "other:not-a-std-exception"; }
        const long hits = vfk::disarm();
        ctl.limit = -1;
        ctx.count(hits ? "kernel_failure_injected/outcome/" + o2 : std::string("kernel_failure_not_reached"));
        if (!ctl.bad.empty()) ctx.violation(key("kernel-failure/operator-buffers"), info().kv("what", ctl.bad).str());
        if (o2 == "work-bound") ctx.violation(key("kernel-failure/work-bound-exceeded"), info().kv("bound", bound).str());
        else if (o2.rfind("other:", 0) == 0) ctx.violation(key("kernel-failure/undocumented-exception-type"), info().kv("type", o2).str());
        else if (o2 == "ok")
        {
            const CompInfo inf = es->info();
            if (inf != CompInfo::Successful && inf != CompInfo::NotConverging) ctx.violation(key("kernel-failure/info-after-compute"), info().kv("info", info_name(inf)).str());
            auto ev = es->eigenvalues();
            auto U = es->eigenvectors();
            bool finite = all_finite(U);
            for (long i = 0; i < (long) ev.size(); i++) finite = finite && std::isfinite((double) std::abs(ev[i]));
            if (!finite) ctx.violation(key("kernel-failure/non-finite-result"), info().kv("info", info_name(inf)).kv("returned", ret2).kv("failpoint_hits", hits).str());
        }
    }
    ctx.count("evals");
    ctx.count(std::string("family/") + FSHORT[d.family]);
    ctx.count(std::string("variant/") + extra);
    if (outcome == "ok" && ctl.count > d.ncv + 1)
        ctx.nontriv(std::string(FSHORT[d.family]) + "/" + d.classname + "/" + extra + "/" + std::to_string(d.n) + "/" + std::to_string(d.nev) + "/" + std::to_string(d.ncv) + "/" + std::to_string(maxit) + "/" + std::to_string(ctl.count));
    if (ctx.want_sample) ctx.set_sample(info().kv("outcome", outcome).kv("returned", ret).kv("applications", ctl.count).kv("bound", bound).str());
}

// overwrite the generated matrix with one of the named degenerate inputs of the statement
static void make_extra(vf::Rng& r, Data<T>& d, int extra)
{
    const int n = d.n;
    const bool gen = family_is_gen(d.family);
    if (extra == 0) return;
    Eigen::MatrixXd A = Eigen::MatrixXd::Zero(n, n);
    if (extra == 1) {}
    else if (extra == 2) A.setIdentity();
    else if (extra == 3) A = Eigen::MatrixXd::Identity(n, n) * d.scale;
    else if (extra == 4)
    {
        Eigen::VectorXd x(n), y(n);
        for (int i = 0; i < n; i++) { x[i] = r.gauss(); y[i] = r.gauss(); }
        A = gen ? Eigen::MatrixXd(x * y.transpose()) : Eigen::MatrixXd(x * x.transpose());
        A *= d.scale;
    }
    else
    {
        // exact ties in every selection key: +-1 / +-i eigenvalues (block diagonal, permuted)
        for (int i = 0; i + 1 < n; i += 2)
        {
            if (gen && r.coin()) { A(i, i + 1) = 1; A(i + 1, i) = -1; }
            else { A(i, i) = 1; A(i + 1, i + 1) = -1; }
        }
        if (n % 2) A(n - 1, n - 1) = 1;
        std::vector<int> p(n);
        for (int i = 0; i < n; i++) p[i] = i;
        for (int i = n - 1; i > 0; i--) std::swap(p[i], p[(size_t) r.range(0, i)]);
        Eigen::MatrixXd B2 = Eigen::MatrixXd::Zero(n, n);
        for (int i = 0; i < n; i++) for (int j = 0; j < n; j++) B2(p[i], p[j]) = A(i, j);
        A = B2;
    }
    if (d.family == 2) d.AH = A.cast<std::complex<T>>();
    else if (d.family == 15) { d.B = A.cast<T>(); d.Bs = d.B.sparseView(); }   // buckling: the indefinite matrix
    else { d.A = A.cast<T>(); d.As = d.A.sparseView(); }
    d.classname = HOSTILE_EXTRA[extra];
}

// PartialSVDSolver: its operator is internal, so only the sanitizer, the exception type and finiteness are observed
static void run_svd(vf::Ctx& ctx)
{
    auto& r = ctx.rng;
    const int m = (int) r.range(2, 30), n = (int) r.range(2, 30), mn = std::min(m, n);
    const int kind = (int) r.range(0, 4);
    static const char* KN[] = {"gaussian", "rank-deficient", "zero", "scaled", "integer"};
    Eigen::MatrixXd A(m, n);
    for (int i = 0; i < m; i++) for (int j = 0; j < n; j++) A(i, j) = r.gauss();
    if (kind == 1) { const int rk = (int) r.range(1, std::max(1, mn / 2)); A = vg::rand_gauss(r, m, rk) * vg::rand_gauss(r, rk, n); }
    else if (kind == 2) A.setZero();
    else if (kind == 3) A *= std::pow(10.0, (double) r.range(-8, 8));
    else if (kind == 4) for (int i = 0; i < m; i++) for (int j = 0; j < n; j++) A(i, j) = (double) r.range(-1, 1);
    const int ncomp = (int) r.range(1, std::max(1, mn - 1)), ncv = (int) r.range(ncomp + 1, mn);
    const long maxit = r.pick(std::vector<long>{0, 1, 5, 100});
    auto info = [&]() { return vf::J().kv("solver", "PartialSVDSolver").kv("kind", KN[kind]).kv("m", m).kv("n", n).kv("ncomp", ncomp).kv("ncv", ncv).kv("maxit", maxit); };
    std::string outcome = "ok";
    try
    {
        Spectra::PartialSVDSolver<Eigen::MatrixXd> svd(A, ncomp, ncv);
        const long nconv = (long) svd.compute(maxit, 1e-10);
        Eigen::VectorXd s = svd.singular_values();
        Eigen::MatrixXd U = svd.matrix_U(ncomp), V = svd.matrix_V(ncomp);
        bool finite = all_finite(s);
        // the factors are promised only for singular values above 1e-4 ||A||: judge their finiteness there
        const double top = s.size() ? s.cwiseAbs().maxCoeff() : 0.0;
        for (long i = 0; i < (long) s.size(); i++)
            if (std::isfinite(s[i]) && s[i] > 1e-4 * top && top > 0) finite = finite && all_finite(U.col(i)) && all_finite(V.col(i));
        if (!finite) ctx.violation("PartialSVDSolver/non-finite-result", info().kv("nconv", nconv).str());
        ctx.count("pairs_checked_finite", (long) s.size());
    }
    catch (const std::invalid_argument&) { outcome = "invalid_argument"; }
    catch (const std::runtime_error&) { outcome = "runtime_error"; }
    catch (const std::logic_error&) { outcome = "logic_error"; }
    catch (const std::exception& e) { outcome = "other"; ctx.violation("PartialSVDSolver/undocumented-exception-type", info().kv("type", typeid(e).name()).str()); }
    ctx.count("outcome/" + outcome);
    ctx.count("evals");
    ctx.count("family/partial-svd");
    if (outcome == "ok") ctx.nontriv(std::string("svd/") + KN[kind] + "/" + std::to_string(m) + "/" + std::to_string(n) + "/" + std::to_string(ncomp) + "/" + std::to_string(ncv) + "/" + std::to_string(A(0, 0)));
    if (ctx.want_sample) ctx.set_sample(info().kv("outcome", outcome).str());
}

// ---------------------------------------------------------------------------------------------------- (B) small-scope restart enumeration
static inline void vf_assign(double& dst, const std::complex<double>& v) { dst = v.real(); }
static inline void vf_assign(std::complex<double>& dst, const std::complex<double>& v) { dst = v; }
#if ZOO_GROUP == 0 || ZOO_GROUP == 1
template <class Fac>
static void run_smallscope(vf::Ctx& ctx, const Fac& fac, long variant)
{
    using Scalar = typename Fac::Scalar;
    auto& r = ctx.rng;
    const auto& d = fac.d;
    auto ops = fac.make_ops();
    auto es = fac.make_solver(*ops);
    const int ncv = d.ncv, nev = d.nev;
    const SortRule rule = fac.select_rules()[(size_t) (variant % (long) fac.select_rules().size())];
    auto key = [&](const char* what) { return std::string("restart-state/") + (Fac::is_gen ? "GenEigsBase" : "HermEigsBase") + "/" + what; };
    // a valid step-ncv factorization and correctly sized Ritz arrays
    es->init();
    es->compute(rule, 0, T(1e-10), fac.sort_rules()[0]);
    auto& rv = SpectraVerifAccess::ritz_val(*es);
    auto& re = SpectraVerifAccess::ritz_est(*es);
    using RV = typename std::decay<decltype(rv)>::type::Scalar;
    // Ritz values with ties in every key (modulus 1, equal real parts): reals and conjugate pairs in an arbitrary order,
    // as an unstable sort may leave them; Ritz estimates with an arbitrary zero pattern
    std::vector<std::complex<double>> vals;
    int npairs = Fac::is_gen ? (int) r.range(0, ncv / 2) : 0;
    const std::complex<double> alphabet[3] = {{0.0, 1.0}, {0.6, 0.8}, {-0.6, 0.8}};
    for (int p = 0; p < npairs; p++) { auto c = alphabet[r.range(0, 2)]; vals.push_back(c); vals.push_back(std::conj(c)); }
    while ((int) vals.size() < ncv) vals.push_back(std::complex<double>(r.coin() ? 1.0 : -1.0, 0.0));
    const int mode = (int) (variant % 3);
    if (mode == 0) { for (int i = ncv - 1; i > 0; i--) std::swap(vals[i], vals[(size_t) r.range(0, i)]); }          // any order
    else if (mode == 1) { std::rotate(vals.begin(), vals.begin() + 1, vals.end()); }                                     // pairs split across the ends
    // mode 2: pairs adjacent, reals last
    std::string pattern;
    for (int i = 0; i < ncv; i++)
    {
        vf_assign(rv[i], vals[i]);
        pattern += vals[i].imag() == 0 ? 'r' : (vals[i].imag() > 0 ? 'c' : 'k');
    }
    std::string zeros;
    for (int i = 0; i < ncv; i++) { const bool z = r.coin(0.3); re[i] = z ? RV(0) : RV(1e-3); zeros += z ? '0' : 'x'; }
    const int nconv = (int) r.range(0, nev);
    auto info = [&]() {
        return vf::J().kv("base", Fac::is_gen ? "GenEigsBase" : "HermEigsBase").kv("ncv", ncv).kv("nev", nev).kv("nconv", nconv).kv("ritz_pattern", pattern).kv("zero_estimates", zeros).kv("rule", rule_name(rule));
    };
    const long k = (long) SpectraVerifAccess::nev_adjusted(*es, nconv);
    ctx.count("restart_states");
    const long kmax = Fac::is_gen ? ncv - 1 : ncv - 1;
    if (k < 1 || k > kmax) ctx.violation(key("restart-size-out-of-range"), info().kv("k", k).str());
    else
    {
        if (Fac::is_gen && k < ncv && vals[k - 1].imag() != 0 && vals[k] == std::conj(vals[k - 1]) && !(k >= 2 && vals[k - 2] == std::conj(vals[k - 1])))
            ctx.violation(key("conjugate-pair-split-by-restart-size"), info().kv("k", k).str());
        // the real restart on these shifts: any report is the sanitizer's (asan-ndebug) or an Eigen assertion (asan)
        SpectraVerifAccess::restart(*es, k, rule);
        ctx.count("restarts_executed");
        // afterwards the factorization must still be usable: finite H and V
        auto& f = SpectraVerifAccess::fac(*es);
        if (!all_finite(f.matrix_H()) || !all_finite(f.matrix_V())) ctx.violation(key("non-finite-factorization-after-restart"), info().kv("k", k).str());
    }
    ctx.count("evals");
    ctx.nontriv("ss/" + std::to_string(Fac::is_gen) + "/" + std::to_string(ncv) + "/" + std::to_string(nev) + "/" + std::to_string(nconv) + "/" + pattern + "/" + zeros + "/" + rule_name(rule));
    if (ctx.want_sample) ctx.set_sample(info().kv("k", k).str());
    (void) sizeof(Scalar);
}
#endif

// ---------------------------------------------------------------------------------------------------- case table
static long n_hostile(const vf::Ctx& ctx) { return ctx.thorough ? 40000 : 1500; }
static long n_small(const vf::Ctx& ctx) { return (ZOO_GROUP == 2) ? 0 : (ctx.thorough ? 120000 : 6000); }
static long n_svd(const vf::Ctx& ctx) { return (ZOO_GROUP == 0) ? (ctx.thorough ? 4000 : 300) : 0; }
long vf_ncases(const vf::Ctx& ctx) { return n_hostile(ctx) + n_small(ctx) + n_svd(ctx); }

void vf_run_case(vf::Ctx& ctx, long idx)
{
    auto& r = ctx.rng;
    const auto fams = compiled_families();
    if (idx < n_hostile(ctx))
    {
        const int f = fams[(size_t) (idx % (long) fams.size())];
        // small n systematically (every legal triple for n <= 10 appears over the run), larger n at random
        Data<T> d = make_data<T>(r, f, r.coin(0.5) ? 10 : (ctx.thorough ? 80 : 40), true);
        int extra = r.coin(0.45) ? 0 : (int) r.range(1, 5);
        // buckling mode: a singular K_G (zero / rank one) gives the pencil K x = lambda K_G x eigenvalues at infinity - outside the documented domain
        if (f == 15 && (extra == 1 || extra == 4)) extra = 5;
        make_extra(r, d, extra);
        ctx.set_where(FAMILY[f]);
        with_family<T>(d, [&](auto fac) { run_hostile(ctx, fac, "", HOSTILE_EXTRA[extra]); });
        return;
    }
    idx -= n_hostile(ctx);
    if (idx < n_small(ctx))
    {
#if ZOO_GROUP == 0 || ZOO_GROUP == 1
        // states of the restart bookkeeping: every ncv <= 10 (14 thorough), every nev, conj-pair / real placements, zero-estimate patterns
        const int ncvmax = ctx.thorough ? 14 : 10;
        Data<T> d;
        d.family = ZOO_GROUP == 0 ? 0 : 5;
        const int lo = ZOO_GROUP == 0 ? 2 : 3;
        d.ncv = lo + (int) (idx % (ncvmax - lo + 1));
        d.nev = 1 + (int) ((idx / (ncvmax - lo + 1)) % std::max(1, d.ncv - (ZOO_GROUP == 0 ? 1 : 2)));
        d.n = d.ncv + (int) r.range(0, 2);
        d.classname = "small-scope";
        ctx.set_where(std::string("small-scope/") + FAMILY[d.family]);
        d.A = (ZOO_GROUP == 0 ? vg::sym_matrix(r, d.n, 0, 1.0) : vg::gen_matrix(r, d.n, 0, 1.0)).cast<T>();
        d.As = d.A.sparseView();
        with_family<T>(d, [&](auto fac) { if constexpr (decltype(fac)::family == 0 || decltype(fac)::family == 5) run_smallscope(ctx, fac, idx / 7); });
#endif
        return;
    }
    ctx.set_where("PartialSVDSolver");
    run_svd(ctx);
}
