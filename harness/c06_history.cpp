// C06 - results depend only on (operator, nev, ncv, v, args): fresh solver == reused solver == second solver on the same operator, bit for bit;
// the operator behaves the same before and after compute(). One solver group per build (-DZOO_GROUP=0|1|2).
#define VF_MAIN
#define VF_HAVE_SETUP
#include "common/framework.hpp"
#include "common/zoo.hpp"
#include "common/libcrng.hpp"

using T = double;
using namespace vz;
const char* vf_driver() { return "c06_history"; }

struct Args { SortRule sel; long maxit; T tol; SortRule sort; };

template <class Fac>
struct Runner
{
    using Scalar = typename Fac::Scalar;
    using Vec = Eigen::Matrix<Scalar, Eigen::Dynamic, 1>;
    static Scalar rnd(vf::Rng& r, std::true_type) { return Scalar(r.gauss(), r.gauss()); }
    static Scalar rnd(vf::Rng& r, std::false_type) { return Scalar(r.gauss()); }
    static Vec rand_vec(vf::Rng& r, int n)
    {
        Vec v(n);
        for (int i = 0; i < n; i++) v[i] = rnd(r, std::integral_constant<bool, Eigen::NumTraits<Scalar>::IsComplex>());
        return v;
    }
    // the observed pair: init(v) (or init()) ; compute(args). Returns the snapshot or the exception type.
    template <class Solver>
    static std::string observed(Solver& es, const Vec* v0, const Args& a, Snapshot& snap)
    {
        try
        {
            if (v0) es.init(v0->data()); else es.init();
            const long ret = (long) es.compute(a.sel, a.maxit, a.tol, a.sort);
            snap = snapshot(es, ret);
            return "ok";
        }
        catch (const std::invalid_argument&) { return "invalid_argument"; }
        catch (const std::runtime_error&) { return "runtime_error"; }
        catch (const std::logic_error&) { return "logic_error"; }
    }
};

template <class Fac>
static void run_case(vf::Ctx& ctx, const Fac& fac)
{
    using R = Runner<Fac>;
    using Vec = typename R::Vec;
    using Scalar = typename Fac::Scalar;
    auto& r = ctx.rng;
    const auto& d = fac.d;
    const std::vector<T> tols = {1e-12, 1e-10, 1e-8, 1e-6, 1e-3};
    const std::vector<long> maxits = {0, 1, 2, 5, 10, 300, 300};
    Args a{r.pick(fac.select_rules()), r.pick(maxits), r.pick(tols), r.pick(fac.sort_rules())};
    const bool use_v = r.coin(0.5);
    Vec v0 = R::rand_vec(r, d.n);
    const Vec probe_x = R::rand_vec(r, d.n);
    auto key = [&](const char* what) { return std::string(FAMILY[d.family]) + "/" + what; };
    auto info = [&](const std::string& word) {
        return vf::J().kv("solver", FAMILY[d.family]).kv("class", d.classname).kv("n", d.n).kv("nev", d.nev).kv("ncv", d.ncv).kv("scale", d.scale).kv("sigma", (double) d.sigma)
            .kv("prehistory", word).kv("observed_init", use_v ? "init(v)" : "init()").kv("selection", rule_name(a.sel)).kv("maxit", a.maxit).kv("tol", (double) a.tol).kv("sorting", rule_name(a.sort));
    };
    // (a) fresh solver, fresh operator
    Snapshot sa, sb, sc;
    std::string oa, ob, oc, word;
    std::vector<unsigned char> p1, p2;
    try
    {
        auto ops = fac.make_ops();
        auto es = fac.make_solver(*ops);
        Vec y1(d.n), y2(d.n);
        ops->probe(probe_x.data(), y1.data());
        oa = R::observed(*es, use_v ? &v0 : nullptr, a, sa);
        ops->probe(probe_x.data(), y2.data());
        p1.assign((unsigned char*) y1.data(), (unsigned char*) y1.data() + sizeof(Scalar) * d.n);
        p2.assign((unsigned char*) y2.data(), (unsigned char*) y2.data() + sizeof(Scalar) * d.n);
        ctx.count("operator_probes");
        if (p1 != p2) ctx.violation(key("operator-changed-by-compute"), info("").kv("outcome", oa).str());
    }
    catch (const std::invalid_argument& e) { ctx.inconclusive(std::string("operator refused input: ") + e.what()); ctx.count("evals"); return; }
    // (b) reused solver: random pre-history, then the same observed pair
    {
        auto ops = fac.make_ops();
        auto es = fac.make_solver(*ops);
        const int len = (int) r.range(0, ctx.thorough ? 6 : 4);
        for (int s = 0; s < len; s++)
        {
            const int what = (int) r.range(0, 7);
            try
            {
                if (what == 0) { es->init(); word += "I"; }
                else if (what == 1) { Vec w = R::rand_vec(r, d.n); es->init(w.data()); word += "V"; }
                else if (what == 2 || what == 3)
                {
                    if (word.empty()) { es->init(); word += "I"; }
                    Args b{r.pick(fac.select_rules()), r.pick(maxits), r.pick(tols), r.pick(fac.sort_rules())};
                    if (what == 3) b.maxit = r.range(0, 2);   // a run that most likely does not converge
                    es->compute(b.sel, b.maxit, b.tol, b.sort);
                    word += (what == 3 ? "n" : "C");
                }
                else if (what == 4)
                {
                    // a compute() that throws: rule the solver does not support
                    if (word.empty()) { es->init(); word += "I"; }
                    const SortRule badr = Fac::is_gen ? SortRule::LargestAlge : SortRule::LargestReal;
                    bool threw = false;
                    try { es->compute(badr, 10, T(1e-8), fac.sort_rules()[0]); } catch (const std::invalid_argument&) { threw = true; }
                    word += threw ? "x" : "X";
                }
                else if (what == 6)
                {
                    // a compute() that throws late: valid selection, sorting rule the solver does not support (rejected only when the Ritz pairs are sorted,
                    // i.e. after the whole iteration and, for the complex-shift solver, after the operator was moved to its probe shift)
                    if (word.empty()) { es->init(); word += "I"; }
                    const SortRule bads = Fac::is_gen ? r.pick(std::vector<SortRule>{SortRule::LargestAlge, SortRule::SmallestAlge, SortRule::BothEnds})
                                                      : r.pick(std::vector<SortRule>{SortRule::LargestReal, SortRule::SmallestReal, SortRule::LargestImag, SortRule::SmallestImag});
                    bool threw = false;
                    try { es->compute(r.pick(fac.select_rules()), r.pick(maxits), r.pick(tols), bads); } catch (const std::invalid_argument&) { threw = true; }
                    word += threw ? "s" : "S";
                }
                else if (what == 7)
                {
                    // a compute() that throws from the inside: the k-th iteration-limit question of the dense eigen kernels is answered with 0 (guarded failpoint),
                    // so the Ritz-pair extraction of some restart gives up with runtime_error in the middle of the iteration
                    if (word.empty()) { es->init(); word += "I"; }
                    vfk::arm(r.range(1, 12));
                    bool threw = false;
                    try { es->compute(r.pick(fac.select_rules()), r.pick(maxits), r.pick(tols), r.pick(fac.sort_rules())); }
                    catch (const std::runtime_error&) { threw = true; }
                    catch (...) { vfk::disarm(); throw; }
                    const long hits = vfk::disarm();
                    word += threw ? "k" : (hits ? "Q" : "K");
                    if (threw) ctx.count("prehistory_compute_ended_by_kernel_failure");
                }
                else
                {
                    // read the accessors (must not matter)
                    (void) es->eigenvalues(); (void) es->eigenvectors(); (void) es->info();
                    word += "r";
                }
            }
            catch (const std::exception&) { word += "!"; }
            // the operator still behaves as it did when it was constructed, after every step of the history (also one that threw)
            Vec yh(d.n);
            ops->probe(probe_x.data(), yh.data());
            ctx.count("operator_probes");
            if (std::memcmp(yh.data(), p1.data(), p1.size()) != 0)
            {
                ctx.violation(key("operator-changed-by-history"), info(word).kv("after_step", word.substr(word.size() - 1)).str());
                break;
            }
        }
        ob = R::observed(*es, use_v ? &v0 : nullptr, a, sb);
        // (c) a second solver sharing the operator object that has been through all of the above
        auto es2 = fac.make_solver(*ops);
        oc = R::observed(*es2, use_v ? &v0 : nullptr, a, sc);
    }
    // digest of the fresh solver's outcome: must not depend on what else ran in this process before (compared by the runner with a run of this case alone)
    {
        uint64_t h = vf::Ctx::fnv_bytes(oa.data(), oa.size());
        if (oa == "ok")
        {
            const long meta[4] = {sa.ret, sa.niter, sa.nops, (long) sa.info};
            h = vf::Ctx::fnv_bytes(meta, sizeof meta, h);
            h = vf::Ctx::fnv_bytes(sa.evals.data(), sa.evals.size(), h);
            h = vf::Ctx::fnv_bytes(sa.evecs.data(), sa.evecs.size(), h);
        }
        ctx.digest(h);
    }
    ctx.count("comparisons", 2);
    if (oa != ob || (oa == "ok" && !(sa == sb)))
        ctx.violation(key("reused-solver-differs"), info(word).kv("fresh", oa).kv("reused", ob).kv("differs_in", oa == ob ? sa.diff(sb) : "outcome").str());
    if (oa != oc || (oa == "ok" && !(sa == sc)))
        ctx.violation(key("second-solver-on-same-operator-differs"), info(word).kv("fresh", oa).kv("second", oc).kv("differs_in", oa == oc ? sa.diff(sc) : "outcome").str());
    ctx.count("evals");
    ctx.count(std::string("family/") + FSHORT[d.family]);
    ctx.count("prehistory_length/" + std::to_string(word.size()));
    ctx.count("outcome/" + oa);
    if (oa == "ok" && sa.niter > 1 && !word.empty())
        ctx.nontriv(std::string(FSHORT[d.family]) + "/" + std::to_string(d.n) + "/" + std::to_string(d.nev) + "/" + std::to_string(d.ncv) + "/" + word + "/" + std::to_string(a.maxit) + "/" + std::to_string(sa.nops));
    if (ctx.want_sample) ctx.set_sample(info(word).kv("outcome", oa).kv("returned", sa.ret).kv("num_iterations", sa.niter).kv("num_operations", sa.nops).str());
}

void vf_setup(vf::Ctx&) { vz::run_prelude<T>(); }

long vf_ncases(const vf::Ctx& ctx) { return ctx.thorough ? 30000 : 1000; }

void vf_run_case(vf::Ctx& ctx, long idx)
{
    const auto fams = compiled_families();
    const int f = fams[(size_t) (idx % (long) fams.size())];
    // half of the cases from the hostile domain: bitwise determinism does not depend on conditioning
    Data<T> d = make_data<T>(ctx.rng, f, ctx.thorough ? 60 : 40, ctx.rng.coin(0.4));
    const long libc_rng_before = g_libc_rng_calls.load();
    with_family<T>(d, [&](auto fac) { run_case(ctx, fac); });
    // "a function of (operator, nev, ncv, v, args) alone": not of the C library's process-wide generator either (interposed, see common/libcrng.hpp)
    if (g_libc_rng_calls.load() != libc_rng_before)
        ctx.violation("library-drew-from-the-process-wide-C-generator", vf::J().kv("calls", g_libc_rng_calls.load() - libc_rng_before).kv("family", FAMILY[f]).str());
    ctx.count("libc_rng_monitor_checks");
}
