// C14 - a failing user operator is contained: the exception arrives unchanged, nothing leaks, and after a new init() the solver gives
// results bit-identical to a solver that never saw the fault. Exhaustive over the fault index. One solver group per build.
#define VF_MAIN
#include "common/fachook.hpp"
#include "common/framework.hpp"
#include "common/zoo.hpp"

#ifdef VF_HAVE_ASAN
extern "C" size_t __sanitizer_get_current_allocated_bytes();
#endif

using T = double;
using namespace vz;
const char* vf_driver() { return "c14_fault"; }

static const char* INPUT[] = {"clean-random", "few-distinct-eigenvalues", "identity-plus-rank-one", "block-diagonal-repeated"};

// breakdown-prone inputs: the Krylov space is exhausted before ncv vectors exist, so the restart path (expand_basis) runs
static void make_input(vf::Rng& r, Data<T>& d, int kind)
{
    if (kind == 0) return;
    const int n = d.n;
    Eigen::MatrixXd A = Eigen::MatrixXd::Zero(n, n);
    if (kind == 1)
    {
        Eigen::MatrixXd Q = vg::rand_orth(r, n);
        Eigen::VectorXd e(n);
        const int k = (int) r.range(2, 4);
        for (int i = 0; i < n; i++) e[i] = 1.0 + (i % k);
        A = Q * e.asDiagonal() * Q.transpose();
    }
    else if (kind == 2)
    {
        Eigen::VectorXd x = Eigen::VectorXd::Ones(n);
        A = Eigen::MatrixXd::Identity(n, n) + x * x.transpose() / n;
    }
    else
    {
        for (int i = 0; i + 1 < n; i += 2) { A(i, i) = 2; A(i + 1, i + 1) = 3; A(i, i + 1) = A(i + 1, i) = 0.5; }
        if (n % 2) A(n - 1, n - 1) = 2;
    }
    for (int j = 0; j < n; j++) for (int i = 0; i < j; i++) A(i, j) = A(j, i);
    if (d.family == 2) d.AH = A.cast<std::complex<T>>();
    else if (d.family == 15) { d.B = A.cast<T>(); d.Bs = d.B.sparseView(); }
    else { d.A = A.cast<T>(); d.As = d.A.sparseView(); }
    d.classname = INPUT[kind];
    if (d.family == 3 || d.family == 4 || d.family == 7 || d.family == 8 || d.family == 14 || d.family == 16) d.sigma = T(0.37);
    if (d.family == 9 || d.family == 10) { d.sigma = T(0.37); d.sigmai = T(0.6); }
}

template <class Fac>
static void run_case(vf::Ctx& ctx, const Fac& fac, int input_kind)
{
    auto& r = ctx.rng;
    const auto& d = fac.d;
    const SortRule sel = r.pick(fac.select_rules()), srt = fac.sort_rules()[0];
    const long maxit = r.pick(std::vector<long>{2, 5, 20, 100});
    const T tol = 1e-9;
    auto key = [&](const char* what) { return std::string(FAMILY[d.family]) + "/" + what; };
    auto info = [&]() {
        return vf::J().kv("solver", FAMILY[d.family]).kv("input", d.classname).kv("n", d.n).kv("nev", d.nev).kv("ncv", d.ncv).kv("selection", rule_name(sel)).kv("maxit", maxit);
    };
    std::unique_ptr<typename Fac::Ops> ops;
    std::unique_ptr<typename Fac::Solver> es;
    try { ops = fac.make_ops(); es = fac.make_solver(*ops); }
    catch (const std::exception&) { ctx.count("operator_refused_input"); ctx.count("evals"); return; }
    auto ctls = ops->ctls();
    for (auto* c : ctls) c->poison_out = true;
    // the fault-free run
    std::vector<long> seen;
    auto clean_run = [&](Snapshot& s) -> std::string {
        for (auto* c : ctls) { c->reset(); c->disarm(); }
        try
        {
            es->init();
            const long ret = (long) es->compute(sel, maxit, tol, srt);
            // applications up to here belong to init()/compute(); the accessors below may apply the B-operator again (Cholesky mode)
            seen.clear();
            for (auto* c : ctls) seen.push_back(c->count);
            s = snapshot(*es, ret);
            return "ok";
        }
        catch (const vw::InjectedFault&) { return "fault"; }
        catch (const std::invalid_argument&) { return "invalid_argument"; }
        catch (const std::runtime_error&) { return "runtime_error"; }
        catch (const std::logic_error&) { return "logic_error"; }
    };
    Snapshot base;
    vfh::sink().reset_counts();
    const std::string ob = clean_run(base);
    if (ob != "ok") { ctx.count("baseline_not_ok/" + ob); ctx.count("evals"); return; }
    const std::vector<long> N = seen;
    const long breakdowns = vfh::sink().breakdown;
    {
        Snapshot again;
        clean_run(again);   // warm-up: lazily sized buffers are at their final size now
        if (!(again == base)) ctx.violation(key("rerun-without-fault-differs"), info().kv("differs_in", base.diff(again)).str());
    }
    vfh::sink().reset_counts();
    // (counter keys used inside the measured region exist before it, so that the harness allocates nothing there)
    ctx.count("garbage_output_runs", 0); ctx.count("garbage_output_runs_ending_in_an_exception", 0);
    ctx.count("faults_thrown/derived-from-std::exception", 0); ctx.count("faults_thrown/plain-struct", 0); ctx.count("faults_thrown/enum-value", 0);
#ifdef VF_HAVE_ASAN
    const size_t bytes0 = __sanitizer_get_current_allocated_bytes();
#endif
    long faults = 0, from_init = 0, from_compute = 0;
    // one faulted attempt: arm operator `which` at application k; returns false when the oracle failed
    auto faulted = [&](int which, long k, long token, int kind = 0) -> bool {
        for (auto* c : ctls) { c->reset(); c->disarm(); }
        ctls[which]->arm(k, token, kind);
        int where = 0;  // 1 init, 2 compute
        bool got = false, wrong = false;
        std::string other;
        try
        {
            where = 1; es->init();
            where = 2; es->compute(sel, maxit, tol, srt);
            where = 3;
        }
        catch (const vw::InjectedFault& f) { if (kind == 0) { got = true; wrong = (f.token != token); } else other = "InjectedFault"; }
        catch (const vw::PlainFault& f) { if (kind == 1) { got = true; wrong = (f.token != token); } else other = "PlainFault"; }
        catch (vw::FaultCode f) { if (kind == 2) { got = true; wrong = ((long) f != token); } else other = "FaultCode"; }
        catch (const std::exception& e) { other = typeid(e).name(); }
        catch (...) { other = "unknown"; }
        ctls[which]->disarm();
        faults++;
        ctx.count(kind == 0 ? "faults_thrown/derived-from-std::exception" : (kind == 1 ? "faults_thrown/plain-struct" : "faults_thrown/enum-value"));
        if (where == 1) from_init++; else if (where == 2) from_compute++;
        if (!got || wrong)
        {
            ctx.violation(key(where == 3 ? "fault-swallowed" : (wrong ? "fault-token-changed" : "fault-replaced-by-other-exception")),
                          info().kv("operator", which == 0 ? "A" : "B").kv("fault_at", k).kv("of", N[which]).kv("other", other).kv("thrown", kind == 0 ? "std::exception-derived" : (kind == 1 ? "plain struct" : "enum value")).str());
            return false;
        }
        if (which == 0 && ((k <= 2) != (where == 1)))
        {
            ctx.violation(key("fault-surfaced-from-unexpected-call"), info().kv("fault_at", k).kv("from", where == 1 ? "init" : "compute").str());
            return false;
        }
        return true;
    };
    auto recovered = [&](const char* what, int which, long k1, long k2, int kind = 0) {
        Snapshot s;
        const std::string o = clean_run(s);
        if (o != "ok" || !(s == base))
            ctx.violation(key(what), info().kv("operator", which == 0 ? "A" : "B").kv("fault_at", k1).kv("second_fault_at", k2).kv("outcome", o).kv("differs_in", o == "ok" ? base.diff(s) : "outcome")
                                         .kv("thrown", kind == 0 ? "std::exception-derived" : (kind == 1 ? "plain struct" : "enum value")).str());
    };
    // every single fault index, in each operator
    for (int which = 0; which < (int) ctls.size(); which++)
        for (long k = 1; k <= N[which]; k++)
        {
            // the thrown object: one derived from std::exception and, for every k as well, one that is not (plain struct / enum value alternating; thorough: all three)
            for (int kind = 0; kind < 3; kind++)
            {
                if (!ctx.thorough && kind != 0 && kind != 1 + (int) (k % 2)) continue;
                // long runs: every k with the std::exception-derived object; the other kinds at the first 20 and last 40 applications (start-up, probing
                // and back-transformation stages) and at about 240 indices spread over the rest
                if (kind != 0 && N[which] > 300 && !(k <= 20 || k > N[which] - 40 || k % ((N[which] + 239) / 240) == 0)) continue;
                if (!faulted(which, k, 1000 * which + k, kind)) continue;
                recovered("recovery-after-fault-differs", which, k, -1, kind);
            }
        }
    // pairs of faults (all pairs when N <= 40, a sample otherwise)
    long pairs = 0;
    {
        const long n0 = N[0];
        const long want = ctx.thorough ? 600 : 120;
        for (long t = 0; t < want; t++)
        {
            long k1, k2;
            if (n0 * n0 <= want) { if (t >= n0 * n0) break; k1 = 1 + t / n0; k2 = 1 + t % n0; }
            else { k1 = r.range(1, n0); k2 = r.range(1, n0); }
            if (!faulted(0, k1, 7, (int) (t % 3))) continue;
            if (!faulted(0, k2, 8, (int) ((t / 3) % 3))) continue;
            recovered("recovery-after-two-faults-differs", 0, k1, k2);
            pairs++;
        }
    }
    // a transient defect instead of an exception: at application k the operator hands back NaN in every component. What the library does with that is its
    // own business (it may throw from one of its own operators or kernels, or return) - but when the defect is gone, the same solver and operator objects
    // must reproduce the baseline: nothing that happened during the faulted run may stick to them
    long garbage = 0, garbage_threw = 0;
    for (int which = 0; which < (int) ctls.size(); which++)
    {
        const long step = std::max(1L, N[which] / (ctx.thorough ? 120 : 40));
        for (long k = 1; k <= N[which]; k += (k <= 6 ? 1 : step))
        {
            for (auto* c : ctls) { c->reset(); c->disarm(); }
            ctls[which]->garbage_at = k;
            bool threw = false;
            std::string other;
            try { es->init(); es->compute(sel, maxit, tol, srt); }
            catch (const std::exception&) { threw = true; }
            catch (...) { threw = true; other = "not a std::exception"; }
            ctls[which]->disarm();
            garbage++;
            if (threw) garbage_threw++;
            if (!other.empty()) ctx.violation(key("garbage-output/undocumented-exception-type"), info().kv("operator", which == 0 ? "A" : "B").kv("garbage_at", k).str());
            Snapshot s;
            const std::string o = clean_run(s);
            if (o != "ok" || !(s == base))
                ctx.violation(key("recovery-after-nonfinite-operator-output-differs"), info().kv("operator", which == 0 ? "A" : "B").kv("garbage_at", k).kv("of", N[which]).kv("faulted_run_threw", threw)
                                                                                           .kv("outcome", o).kv("differs_in", o == "ok" ? base.diff(s) : "outcome").str());
        }
    }
    ctx.count("garbage_output_runs", garbage);
    ctx.count("garbage_output_runs_ending_in_an_exception", garbage_threw);
#ifdef VF_HAVE_ASAN
    const size_t bytes1 = __sanitizer_get_current_allocated_bytes();
    if (bytes1 != bytes0) ctx.violation(key("allocated-bytes-grew-over-fault-cycles"), info().kv("before", (long) bytes0).kv("after", (long) bytes1).str());
#endif
    ctx.count("faulted_runs", faults);
    ctx.count("faults_surfacing_from_init", from_init);
    ctx.count("faults_surfacing_from_compute", from_compute);
    ctx.count("fault_pairs", pairs);
    ctx.count("baseline_breakdowns", breakdowns);
    ctx.count("baseline_applications_A", N[0]);
    if (N.size() > 1) ctx.count("baseline_applications_B", N[1]);
    ctx.count("evals", faults);
    ctx.count(std::string("family/") + FSHORT[d.family]);
    ctx.count(std::string("input/") + d.classname);
    if (base.niter > 1) ctx.count("baselines_with_restarts");
    if (breakdowns > 0) ctx.count("baselines_with_breakdown");
    ctx.nontriv(std::string(FSHORT[d.family]) + "/" + d.classname + "/" + std::to_string(d.n) + "/" + std::to_string(d.nev) + "/" + std::to_string(d.ncv) + "/" + std::to_string(N[0]) + "/" + std::to_string(maxit));
    ctx.set_sample(info().kv("baseline_applications", N[0]).kv("baseline_restarts", base.niter - 1).kv("baseline_breakdowns", breakdowns).kv("single_faults", faults - 2 * pairs).kv("fault_pairs", pairs).str());
}

long vf_ncases(const vf::Ctx& ctx) { return (long) compiled_families().size() * (ctx.thorough ? 24 : 6); }

void vf_run_case(vf::Ctx& ctx, long idx)
{
    auto& r = ctx.rng;
    const auto fams = compiled_families();
    const int f = fams[(size_t) (idx % (long) fams.size())];
    const int input_kind = (int) ((idx / (long) fams.size()) % 4);
    Data<T> d = make_data<T>(r, f, 24, false);
    // keep the enumeration affordable: N is about ncv * (restarts + 1)
    if (d.ncv > 12) { d.ncv = std::max(d.nev + 2, 12); if (d.ncv > d.n) d.ncv = d.n; }
    make_input(r, d, input_kind);
    with_family<T>(d, [&](auto fac) { run_case(ctx, fac, input_kind); });
}
