// C03 - generalized symmetric solvers: every returned pair is an eigenpair of the user's pencil and the vectors are orthonormal in the
// inner product of the positive-definite matrix. Group 0: SymGEigsSolver (Cholesky, RegularInverse); group 1: SymGEigsShiftSolver (3 modes).
#define VF_MAIN
#include "common/framework.hpp"
#include "common/oracle.hpp"
#include "common/gen.hpp"
#include "common/opwrap.hpp"
#include "common/solvers.hpp"
#include <Spectra/SymGEigsSolver.h>
#include <Spectra/SymGEigsShiftSolver.h>
#include <Spectra/MatOp/DenseSymMatProd.h>
#include <Spectra/MatOp/SparseSymMatProd.h>
#include <Spectra/MatOp/DenseCholesky.h>
#include <Spectra/MatOp/SparseCholesky.h>
#include <Spectra/MatOp/SparseRegularInverse.h>
#include <Spectra/MatOp/SymShiftInvert.h>

#ifndef C03_T
#define C03_T double
#endif
#ifndef C03_GROUP
#define C03_GROUP 0
#endif
using T = C03_T;
using namespace vo;
using namespace vs;
using Spectra::GEigsMode;
using MatC = Eigen::Matrix<T, Eigen::Dynamic, Eigen::Dynamic, Eigen::ColMajor>;
using MatR = Eigen::Matrix<T, Eigen::Dynamic, Eigen::Dynamic, Eigen::RowMajor>;
using SpC = Eigen::SparseMatrix<T, Eigen::ColMajor>;
using SpR = Eigen::SparseMatrix<T, Eigen::RowMajor>;
using VecT = Eigen::Matrix<T, Eigen::Dynamic, 1>;
using MatXd = Eigen::MatrixXd;

const char* vf_driver() { return "c03_geigs"; }
static const LD C_RES = 200, C_ORTH = 200, G_TOL = 4;

// mode: 0 Cholesky, 1 RegularInverse, 2 ShiftInvert, 3 Buckling, 4 Cayley
struct Problem
{
    int variant = 0, mode = 0, n = 0, nev = 0, ncv = 0;
    const char* vname = "";
    bool clean = true, tight = false;
    std::string tag;
    double condB = 1, scale = 1;
    MatXd A, B;              // the pencil handed to the solver: A x = lambda B x  (buckling: A = K positive definite, B = K_G indefinite)
    T sigma = 0;
    Eigen::VectorXd spec;    // reference generalized spectrum
    LD normA = 0, normB = 0, lminM = 0, lmaxM = 0, normF = 0, kappaF = 1;   // M = inner-product matrix (B, or K in buckling mode); F = factorized matrix
};
struct ComputeArgs { SortRule sel; long maxit; T tol; SortRule sort; };

static std::string pjson(const Problem& P, const std::string& word, const ComputeArgs& a)
{
    return vf::J().kv("solver", P.vname).kv("scalar", Name<T>::s()).kv("n", P.n).kv("nev", P.nev).kv("ncv", P.ncv).kv("cond_B", P.condB).kv("scale", P.scale).kv("sigma", (LD) P.sigma)
        .kv("history", word).kv("selection", rule_name(a.sel)).kv("maxit", a.maxit).kv("tol", (LD) a.tol).kv("sorting", rule_name(a.sort)).str();
}

template <class Solver>
static void judge(vf::Ctx& ctx, const Problem& P, const Solver& es, long restarts, const ComputeArgs& a, const std::string& word)
{
    const LD u = unit<T>();
    auto evals = es.eigenvalues();
    auto evecs = es.eigenvectors();
    const long k = (long) evals.size();
    auto bad = [&](const char* sub, LD obs, LD allow, long idx) {
        std::string j = pjson(P, word, a);
        j.pop_back();
        j += "," + vf::J().kv("info", info_name(es.info())).kv("returned", k).kv("restarts", restarts).kv("pair", idx).kv("observed", obs).kv("allowed", allow).str().substr(1);
        if (P.tag.empty()) ctx.violation(std::string(P.vname) + "/" + sub, j);
        else ctx.violation(P.tag + "/" + (std::string(sub) == "non-finite" ? "non-finite-result" : "inaccurate-pairs"), j);
    };
    // the other overload: eigenvectors(nvec) is the leading min(nvec, returned) columns of eigenvectors(), in the user's coordinates as well
    for (long nv : {1L, k / 2, k, k + 3})
    {
        if (nv < 0) continue;
        auto part = es.eigenvectors((Eigen::Index) nv);
        const long want = std::min(nv, k);
        ctx.count("eigenvectors(nvec)_calls");
        bool same = part.cols() == want && (want == 0 || part.rows() == evecs.rows());   // (an empty result need not have n rows)
        // (to rounding level, not bit for bit: a one-column product V*y goes through another Eigen kernel than a several-column one)
        for (long j = 0; same && j < want; j++)
        {
            LD dn = 0, cn = 0;
            for (long i = 0; i < (long) evecs.rows(); i++) { dn += std::norm((CLD) part(i, j) - (CLD) evecs(i, j)); cn += std::norm((CLD) evecs(i, j)); }
            if (!(std::sqrt(dn) <= 100 * std::max<long>(P.n, 10) * u * std::sqrt(cn))) same = false;
        }
        if (!same) { bad("eigenvectors(nvec)-not-the-leading-columns-of-eigenvectors()", (LD) nv, (LD) want, -1); break; }
    }
    ctx.count(std::string("outcome/") + info_name(es.info()));
    if (k == 0) return;
    ctx.count("pairs_judged", k);
    if (evecs.cols() != k || evecs.rows() != P.n) { bad("shape-mismatch", (LD) evecs.cols(), (LD) k, -1); return; }
    const MatLD X = evecs.template cast<LD>();
    bool finite = all_finite(X);
    for (long i = 0; i < k; i++) finite = finite && std::isfinite((double) evals[i]);
    if (!finite) { bad("non-finite", 0, 0, -1); return; }
    const MatLD AL = P.A.cast<LD>(), BL = P.B.cast<LD>();
    const MatLD& ML = (P.mode == 3) ? AL : BL;   // inner-product matrix
    const LD grow = std::sqrt((LD) (1 + restarts));
    const LD eps23 = std::pow(u, LD(2) / 3);
    const LD nn = std::max(P.n, 10), nc = std::max(P.ncv, 10);
    const std::string cp = P.clean ? "" : "corpus:";
    const LD sig = (LD) P.sigma;
    std::vector<char> used(P.n, 0);
    const LD spread = std::max<LD>((LD) (P.spec[P.n - 1] - P.spec[0]), 1e-300L);
    for (long i = 0; i < k; i++)
    {
        const LD lam = (LD) evals[i];
        const VecLD x = X.col(i);
        const LD xn = x.norm();
        const LD res = fnorm(VecLD(AL * x - lam * (BL * x)));
        // iterated eigenvalue nu and the factor by which the transformation stretches a residual on the way back
        LD nu = lam, stretch = 1;
        if (P.mode == 2) { nu = 1 / (lam - sig); stretch = P.normF / std::abs(nu); }
        else if (P.mode == 3) { nu = lam / (lam - sig); stretch = P.normF * std::abs((lam - sig) / sig); }
        else if (P.mode == 4) { nu = (lam + sig) / (lam - sig); stretch = P.normF * std::abs((lam - sig) / (2 * sig)); }
        else if (P.mode == 1) stretch = P.normB;
        LD tolpart;
        if (P.mode == 0) tolpart = std::sqrt(P.lmaxM) * (LD) a.tol * std::max(eps23, std::abs(lam));                         // L (C y - lambda y), ||y||_2 = 1
        else tolpart = stretch * (LD) a.tol * std::max(eps23, std::abs(nu)) / std::sqrt(P.lminM);                            // e measured in the M-norm, ||x||_M = 1
        const LD amode = P.mode == 3 ? (1 + std::abs(lam / sig)) : (P.mode == 4 ? (1 + std::abs(lam / sig)) / 2 : LD(1));
        const LD rounding = C_RES * nn * u * P.kappaF * amode * (P.normA + (std::abs(lam) + std::abs(sig)) * P.normB) * xn * grow;
        const LD allow = G_TOL * tolpart + rounding;
        if (!within(ctx, cp + "pencil-residual", res, allow)) bad("pencil-residual", res, allow, i);
        // returned value is an eigenvalue of the pencil (catches a missing / wrong back-transformation at once)
        LD best = std::numeric_limits<LD>::infinity();
        int bj = -1;
        for (int q = 0; q < P.n; q++)
            if (!used[q] && std::abs((LD) P.spec[q] - lam) < best) { best = std::abs((LD) P.spec[q] - lam); bj = q; }
        if (bj >= 0) used[bj] = 1;
        const LD mallow = std::max(1e-6L * spread, 20 * allow / std::max<LD>(P.lminM * xn * xn, 1e-300L)) + 1e-6L * std::abs(lam);
        if (P.clean && !within(ctx, "eigenvalue-in-spectrum", best, mallow)) bad("eigenvalue-not-in-spectrum", best, mallow, i);
    }
    MatLD G = X.transpose() * ML * X;
    G.diagonal().array() -= LD(1);
    const LD kM = P.lmaxM / P.lminM;
    const LD oe = G.cwiseAbs().maxCoeff(), oa = C_ORTH * nc * u * kM * grow;
    if (!within(ctx, cp + "M-orthonormal", oe, oa)) bad("M-orthonormal", oe, oa, -1);
}

template <class Solver>
static void run_history(vf::Ctx& ctx, const Problem& P, Solver& es, vw::OpCtl& ctl)
{
    auto& r = ctx.rng;
    const bool thor = ctx.thorough && P.clean;   // corpus cases are the same in both tiers
    const int len = (int) r.range(1, thor ? 6 : 3);
    std::string word;
    bool inited = false, computed = false;
    const auto tols = TolSet<T>::get();
    const long big = thor ? 1000 : 300;
    const std::vector<long> maxits = {1, 2, 5, 10, big, big, big};
    bool nontrivial = false;
    for (int step = 0; step <= len + 4; step++)
    {
        if (step > len && inited && !word.empty() && word.back() == 'C') break;
        char op = !inited ? (r.coin(0.5) ? 'I' : 'V') : (step >= len ? 'C' : (r.coin(0.6) ? 'C' : (r.coin() ? 'I' : 'V')));
        if (!inited && step > len + 3) break;
        word += op;
        if (op == 'I' || op == 'V')
        {
            try
            {
                if (op == 'I') es.init();
                else
                {
                    VecT v(P.n);
                    for (int i = 0; i < P.n; i++) v[i] = T(r.gauss());
                    es.init(v.data());
                }
            }
            catch (const std::runtime_error&) { ctx.count("init_exception/runtime_error"); inited = false; continue; }   // CG of SparseRegularInverse gave up: documented
            inited = true; computed = false;
        }
        else
        {
            ComputeArgs a{r.pick(SYM_SELECT), r.pick(maxits), tols[(size_t) r.range(P.clean ? 2 : 0, (long) tols.size() - 1)], r.pick(SYM_SORT)};
            if (P.tight) { a.maxit = 1000; a.tol = r.pick(std::vector<T>{T(1e-11), T(1e-12), T(1e-13), T(1e-14)}); }
            const long it0 = (long) es.num_iterations();
            ctl.limit = ctl.count + 8 * (4 + 2 * (long) P.ncv * (a.maxit + 2));
            long ret = -1;
            bool ok = false;
            try { ret = (long) es.compute(a.sel, a.maxit, a.tol, a.sort); ok = true; }
            catch (const vw::WorkBoundExceeded&) { ctx.inconclusive("work guard hit (see C13)"); return; }
            catch (const std::invalid_argument&) { ctx.count("compute_exception/invalid_argument"); }
            catch (const std::runtime_error&) { ctx.count("compute_exception/runtime_error"); }   // e.g. CG of SparseRegularInverse gave up: documented
            catch (const std::logic_error&) { ctx.count("compute_exception/logic_error"); }
            ctl.limit = -1;
            ctx.count("computes");
            if (!ok) { inited = false; continue; }
            const long restarts = (long) es.num_iterations() - it0 - 1;
            judge(ctx, P, es, std::max(0L, (long) es.num_iterations() - 1), a, word);
            if (restarts >= 1 && ret >= 1) nontrivial = true;
            computed = true;
            if (ctx.want_sample && ctx.sample.empty())
            {
                std::string j = pjson(P, word, a);
                j.pop_back();
                ctx.set_sample(j + "," + vf::J().kv("info", info_name(es.info())).kv("returned", ret).kv("restarts", restarts).str().substr(1));
            }
        }
    }
    (void) computed;
    ctx.count("evals");
    ctx.count(std::string("variant/") + P.vname);
    if (nontrivial)
        ctx.nontriv(std::string(P.vname) + "/" + std::to_string(P.n) + "/" + std::to_string(P.nev) + "/" + std::to_string(P.ncv) + "/" + word + "/" + std::to_string(P.condB) + "/" + std::to_string(P.A(0, 0)));
}

template <class M> static M lower_only(const MatXd& A) { M L = A.cast<T>(); for (int j = 0; j < A.cols(); j++) for (int i = 0; i < j; i++) L(i, j) = T(0); return L; }
template <class M> static M upper_only(const MatXd& A) { M U = A.cast<T>(); for (int j = 0; j < A.cols(); j++) for (int i = j + 1; i < A.rows(); i++) U(i, j) = T(0); return U; }

#if C03_GROUP == 0
static const int NVAR = 6;
static const char* VNAME[NVAR] = {"SymGEigsSolver<DenseSymMatProd,DenseCholesky,Cholesky>", "SymGEigsSolver<SparseSymMatProd,SparseCholesky,Cholesky>",
                                  "SymGEigsSolver<DenseSymMatProd<Upper,RowMajor>,SparseCholesky<Upper>,Cholesky>", "SymGEigsSolver<SparseSymMatProd<Upper>,DenseCholesky<Upper,RowMajor>,Cholesky>",
                                  "SymGEigsSolver<SparseSymMatProd,SparseRegularInverse,RegularInverse>", "SymGEigsSolver<SparseSymMatProd<Upper,RowMajor>,SparseRegularInverse<Lower,RowMajor>,RegularInverse>"};
static const int VMODE[NVAR] = {0, 0, 0, 0, 1, 1};
#else
static const int NVAR = 8;
static const char* VNAME[NVAR] = {"SymGEigsShiftSolver<SymShiftInvert<Sparse,Sparse>,SparseSymMatProd,ShiftInvert>", "SymGEigsShiftSolver<SymShiftInvert<Dense,Dense,Upper,Lower>,DenseSymMatProd,ShiftInvert>",
                                  "SymGEigsShiftSolver<SymShiftInvert<Sparse,Dense>,DenseSymMatProd,ShiftInvert>", "SymGEigsShiftSolver<SymShiftInvert<Dense,Dense>,DenseSymMatProd,Buckling>",
                                  "SymGEigsShiftSolver<SymShiftInvert<Sparse,Sparse,Upper,Upper>,SparseSymMatProd<Upper>,Buckling>", "SymGEigsShiftSolver<SymShiftInvert<Sparse,Dense>,DenseSymMatProd,Cayley>",
                                  "SymGEigsShiftSolver<SymShiftInvert<Dense,Sparse,Lower,Upper,RowMajor,RowMajor>,SparseSymMatProd<Upper,RowMajor>,Cayley>", "SymGEigsShiftSolver<SymShiftInvert<Sparse,Sparse>,SparseSymMatProd,Cayley>"};
static const int VMODE[NVAR] = {2, 2, 2, 3, 3, 4, 4, 4};
#endif
static const char* VSHORT(int v) { static char b[16]; snprintf(b, sizeof b, "g%dv%d", C03_GROUP, v); return b; }

static long n_explore(const vf::Ctx& ctx) { return ctx.thorough ? 24000 : 900; }
static long n_corpus1() { return sizeof(T) == 8 ? 120 : 0; }
static long n_corpus() { return sizeof(T) == 8 ? 120 + 112 : 0; }   // second part (ids from 120): corpus/scaled/... (see c01_sym.cpp)
long vf_ncases(const vf::Ctx& ctx) { return n_explore(ctx) + n_corpus(); }

void vf_run_case(vf::Ctx& ctx, long idx)
{
    auto& r = ctx.rng;
    Problem P;
    const bool corpus = idx >= n_explore(ctx);
    const long ci = idx - n_explore(ctx);
    P.variant = (int) ((corpus ? ci : idx) % NVAR);
    P.mode = VMODE[P.variant];
    P.vname = VNAME[P.variant];
    if (corpus)
    {
        ctx.case_rng("c03_corpus", ci, true);
        P.tight = ci >= n_corpus1();
        P.tag = std::string(P.tight ? "corpus/scaled/" : "corpus/") + VSHORT(P.variant) + "/" + std::to_string(ci);
        ctx.set_tag(P.tag);
    }
    P.clean = !corpus;
    vg::Config c = vg::sym_config(r, corpus && !P.tight ? 2 : 5, ctx.thorough && !corpus ? 100 : 40);
    const bool wb = P.clean || P.tight;   // well-behaved classes, conditions and shifts
    P.n = c.n; P.nev = c.nev; P.ncv = c.ncv;
    const int n = P.n;
    // SPD matrix with prescribed condition number; the CG-based mode stays at cond <= 1e2 (1e4 in the corpus)
    static const double CONDS_CLEAN[] = {1, 1e1, 1e2, 1e3, 1e4}, CONDS_ALL[] = {1, 1e2, 1e4, 1e6, 1e8};
    P.condB = wb ? CONDS_CLEAN[r.range(0, P.mode == 1 ? 2 : 4)] : CONDS_ALL[r.range(0, P.mode == 1 ? 2 : 4)];
    P.scale = P.clean ? (r.coin(0.6) ? 1.0 : std::pow(10.0, (double) r.range(-2, 2))) : std::pow(10.0, (double) r.range(-6, 6));
    if (P.tight) P.scale = std::pow(10.0, (double) (r.coin(0.7) ? -r.range(3, 12) : r.range(3, 8)));
    MatXd spd;
    {
        MatXd Q = vg::rand_orth(r, n);
        Eigen::VectorXd e(n);
        for (int i = 0; i < n; i++) e[i] = std::pow(P.condB, -(double) i / std::max(1, n - 1));
        spd = Q * e.asDiagonal() * Q.transpose();
        for (int j = 0; j < n; j++) for (int i = 0; i < j; i++) spd(i, j) = spd(j, i);
    }
    static const int CLEANCLS[] = {0, 6, 7, 10, 11};
    const int cls = wb ? CLEANCLS[r.range(0, 4)] : (int) r.range(0, vg::N_SYM_CLASS - 1);
    MatXd sym = vg::sym_matrix(r, n, cls, P.scale);
    if (P.mode == 3) { P.A = spd; P.B = sym; }   // buckling: K positive definite, K_G indefinite
    else { P.A = sym; P.B = spd; }
    if (sizeof(T) == 4) { P.A = P.A.cast<float>().cast<double>(); P.B = P.B.cast<float>().cast<double>(); }
    // reference spectrum of the pencil and the norms the allowances need
    const MatXd& Mm = (P.mode == 3) ? P.A : P.B;
    {
        Eigen::SelfAdjointEigenSolver<MatXd> em(Mm, Eigen::EigenvaluesOnly);
        P.lminM = (LD) em.eigenvalues()[0]; P.lmaxM = (LD) em.eigenvalues()[n - 1];
        if (!(P.lminM > 0)) { ctx.count("evals"); return; }
        Eigen::SelfAdjointEigenSolver<MatXd> ea(P.A, Eigen::EigenvaluesOnly), eb(P.B, Eigen::EigenvaluesOnly);
        P.normA = std::max(std::abs((LD) ea.eigenvalues()[0]), std::abs((LD) ea.eigenvalues()[n - 1]));
        P.normB = std::max(std::abs((LD) eb.eigenvalues()[0]), std::abs((LD) eb.eigenvalues()[n - 1]));
        if (P.mode == 3)
        {
            // K x = lambda K_G x  <=>  K_G x = (1/lambda) K x : eigenvalues of the definite pencil (K_G, K) are mu = 1/lambda
            Eigen::GeneralizedSelfAdjointEigenSolver<MatXd> eg(P.B, P.A, Eigen::EigenvaluesOnly);
            std::vector<double> lam;
            for (int i = 0; i < n; i++) lam.push_back(1.0 / eg.eigenvalues()[i]);
            std::sort(lam.begin(), lam.end());
            P.spec = Eigen::Map<Eigen::VectorXd>(lam.data(), n);
        }
        else
        {
            Eigen::GeneralizedSelfAdjointEigenSolver<MatXd> eg(P.A, P.B, Eigen::EigenvaluesOnly);
            P.spec = eg.eigenvalues();
        }
    }
    if (!all_finite(P.spec)) { ctx.count("evals"); ctx.count("skipped_infinite_eigenvalue"); return; }
    P.kappaF = (P.mode <= 1) ? (P.lmaxM / P.lminM) : LD(1);
    if (P.mode >= 2)
    {
        const double spread = std::max(P.spec[n - 1] - P.spec[0], 1e-300);
        const int j = (int) r.range(0, n - 1);
        const double rel = wb ? (r.coin() ? 0.1 : 0.03) : std::pow(10.0, -(double) r.range(1, 5));
        double s = P.spec[j] + (r.coin() ? 1 : -1) * rel * spread;
        if (std::abs(s) < 1e-3 * spread) s = 0.05 * spread;
        P.sigma = T(s);
        MatXd F = P.A - (double) P.sigma * P.B;
        Eigen::JacobiSVD<MatXd> svd(F);
        P.normF = (LD) svd.singularValues()[0];
        P.kappaF = P.normF / (LD) svd.singularValues()[n - 1];
        if (!(P.kappaF < (P.clean ? 1e8L : 1e13L))) { ctx.count("evals"); ctx.count("skipped_shift_on_eigenvalue"); return; }
    }
    vw::OpCtl ctl, ctlB;
    try
    {
#if C03_GROUP == 0
        if (P.variant == 0)
        {
            MatC A = P.A.cast<T>(), B = P.B.cast<T>();
            vw::Wrap<Spectra::DenseSymMatProd<T>> op(&ctl, A); vw::Wrap<Spectra::DenseCholesky<T>> bop(&ctlB, B);
            Spectra::SymGEigsSolver<decltype(op), decltype(bop), GEigsMode::Cholesky> es(op, bop, P.nev, P.ncv); run_history(ctx, P, es, ctl);
        }
        else if (P.variant == 1)
        {
            SpC A = lower_only<MatC>(P.A).sparseView(), B = lower_only<MatC>(P.B).sparseView();
            vw::Wrap<Spectra::SparseSymMatProd<T>> op(&ctl, A); vw::Wrap<Spectra::SparseCholesky<T>> bop(&ctlB, B);
            Spectra::SymGEigsSolver<decltype(op), decltype(bop), GEigsMode::Cholesky> es(op, bop, P.nev, P.ncv); run_history(ctx, P, es, ctl);
        }
        else if (P.variant == 2)
        {
            MatR A = upper_only<MatR>(P.A); SpC B = upper_only<MatC>(P.B).sparseView();
            vw::Wrap<Spectra::DenseSymMatProd<T, Eigen::Upper, Eigen::RowMajor>> op(&ctl, A); vw::Wrap<Spectra::SparseCholesky<T, Eigen::Upper>> bop(&ctlB, B);
            Spectra::SymGEigsSolver<decltype(op), decltype(bop), GEigsMode::Cholesky> es(op, bop, P.nev, P.ncv); run_history(ctx, P, es, ctl);
        }
        else if (P.variant == 3)
        {
            SpC A = upper_only<MatC>(P.A).sparseView(); MatR B = upper_only<MatR>(P.B);
            vw::Wrap<Spectra::SparseSymMatProd<T, Eigen::Upper>> op(&ctl, A); vw::Wrap<Spectra::DenseCholesky<T, Eigen::Upper, Eigen::RowMajor>> bop(&ctlB, B);
            Spectra::SymGEigsSolver<decltype(op), decltype(bop), GEigsMode::Cholesky> es(op, bop, P.nev, P.ncv); run_history(ctx, P, es, ctl);
        }
        else if (P.variant == 4)
        {
            SpC A = lower_only<MatC>(P.A).sparseView(), B = lower_only<MatC>(P.B).sparseView();
            vw::Wrap<Spectra::SparseSymMatProd<T>> op(&ctl, A); vw::Wrap<Spectra::SparseRegularInverse<T>> bop(&ctlB, B);
            Spectra::SymGEigsSolver<decltype(op), decltype(bop), GEigsMode::RegularInverse> es(op, bop, P.nev, P.ncv); run_history(ctx, P, es, ctl);
        }
        else
        {
            SpR A = upper_only<MatR>(P.A).sparseView(); SpR B = lower_only<MatR>(P.B).sparseView();
            vw::Wrap<Spectra::SparseSymMatProd<T, Eigen::Upper, Eigen::RowMajor>> op(&ctl, A); vw::Wrap<Spectra::SparseRegularInverse<T, Eigen::Lower, Eigen::RowMajor>> bop(&ctlB, B);
            Spectra::SymGEigsSolver<decltype(op), decltype(bop), GEigsMode::RegularInverse> es(op, bop, P.nev, P.ncv); run_history(ctx, P, es, ctl);
        }
#else
        using Eigen::Dense; using Eigen::Sparse; using Eigen::Lower; using Eigen::Upper; using Eigen::ColMajor; using Eigen::RowMajor;
        if (P.variant == 0)
        {
            SpC A = lower_only<MatC>(P.A).sparseView(), B = lower_only<MatC>(P.B).sparseView();
            vw::Wrap<Spectra::SymShiftInvert<T, Sparse, Sparse>> op(&ctl, A, B); vw::Wrap<Spectra::SparseSymMatProd<T>> bop(&ctlB, B);
            Spectra::SymGEigsShiftSolver<decltype(op), decltype(bop), GEigsMode::ShiftInvert> es(op, bop, P.nev, P.ncv, P.sigma); run_history(ctx, P, es, ctl);
        }
        else if (P.variant == 1)
        {
            MatC A = upper_only<MatC>(P.A), B = lower_only<MatC>(P.B);
            vw::Wrap<Spectra::SymShiftInvert<T, Dense, Dense, Upper, Lower>> op(&ctl, A, B); vw::Wrap<Spectra::DenseSymMatProd<T>> bop(&ctlB, B);
            Spectra::SymGEigsShiftSolver<decltype(op), decltype(bop), GEigsMode::ShiftInvert> es(op, bop, P.nev, P.ncv, P.sigma); run_history(ctx, P, es, ctl);
        }
        else if (P.variant == 2)
        {
            SpC A = lower_only<MatC>(P.A).sparseView(); MatC B = lower_only<MatC>(P.B);
            vw::Wrap<Spectra::SymShiftInvert<T, Sparse, Dense>> op(&ctl, A, B); vw::Wrap<Spectra::DenseSymMatProd<T>> bop(&ctlB, B);
            Spectra::SymGEigsShiftSolver<decltype(op), decltype(bop), GEigsMode::ShiftInvert> es(op, bop, P.nev, P.ncv, P.sigma); run_history(ctx, P, es, ctl);
        }
        else if (P.variant == 3)
        {
            MatC K = lower_only<MatC>(P.A), KG = lower_only<MatC>(P.B);
            vw::Wrap<Spectra::SymShiftInvert<T, Dense, Dense>> op(&ctl, K, KG); vw::Wrap<Spectra::DenseSymMatProd<T>> bop(&ctlB, K);
            Spectra::SymGEigsShiftSolver<decltype(op), decltype(bop), GEigsMode::Buckling> es(op, bop, P.nev, P.ncv, P.sigma); run_history(ctx, P, es, ctl);
        }
        else if (P.variant == 4)
        {
            SpC K = upper_only<MatC>(P.A).sparseView(), KG = upper_only<MatC>(P.B).sparseView();
            vw::Wrap<Spectra::SymShiftInvert<T, Sparse, Sparse, Upper, Upper>> op(&ctl, K, KG); vw::Wrap<Spectra::SparseSymMatProd<T, Upper>> bop(&ctlB, K);
            Spectra::SymGEigsShiftSolver<decltype(op), decltype(bop), GEigsMode::Buckling> es(op, bop, P.nev, P.ncv, P.sigma); run_history(ctx, P, es, ctl);
        }
        else if (P.variant == 5)
        {
            SpC A = lower_only<MatC>(P.A).sparseView(); MatC B = lower_only<MatC>(P.B);
            vw::Wrap<Spectra::SymShiftInvert<T, Sparse, Dense>> op(&ctl, A, B); vw::Wrap<Spectra::DenseSymMatProd<T>> bop(&ctlB, B);
            Spectra::SymGEigsShiftSolver<decltype(op), decltype(bop), GEigsMode::Cayley> es(op, bop, P.nev, P.ncv, P.sigma); run_history(ctx, P, es, ctl);
        }
        else if (P.variant == 6)
        {
            MatR A = lower_only<MatR>(P.A); SpR B = upper_only<MatR>(P.B).sparseView();
            vw::Wrap<Spectra::SymShiftInvert<T, Dense, Sparse, Lower, Upper, RowMajor, RowMajor>> op(&ctl, A, B); vw::Wrap<Spectra::SparseSymMatProd<T, Upper, RowMajor>> bop(&ctlB, B);
            Spectra::SymGEigsShiftSolver<decltype(op), decltype(bop), GEigsMode::Cayley> es(op, bop, P.nev, P.ncv, P.sigma); run_history(ctx, P, es, ctl);
        }
        else
        {
            SpC A = lower_only<MatC>(P.A).sparseView(), B = lower_only<MatC>(P.B).sparseView();
            vw::Wrap<Spectra::SymShiftInvert<T, Sparse, Sparse>> op(&ctl, A, B); vw::Wrap<Spectra::SparseSymMatProd<T>> bop(&ctlB, B);
            Spectra::SymGEigsShiftSolver<decltype(op), decltype(bop), GEigsMode::Cayley> es(op, bop, P.nev, P.ncv, P.sigma); run_history(ctx, P, es, ctl);
        }
#endif
    }
    catch (const std::invalid_argument& e) { ctx.inconclusive(std::string("operator refused input: ") + e.what()); ctx.count("evals"); }
    if (!ctl.bad.empty() || !ctlB.bad.empty())
        ctx.violation((P.tag.empty() ? std::string(P.vname) : P.tag) + "/operator-buffers", vf::J().kv("what", ctl.bad + ctlB.bad).kv("n", P.n).str());
}
