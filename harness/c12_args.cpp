// C12 - invalid arguments are rejected with std::invalid_argument, valid ones are accepted, a rejected call leaks nothing and leaves the object usable.
// Exhaustive over n in 1..12 and (nev, ncv) in [-2, n+3]^2 for every solver class, all nine SortRule values as selection and as sorting argument,
// sigma = 0 in buckling / Cayley mode, zero start vectors, non-square wrapper inputs up to 4x4. One solver group per build; group 3 = the other classes.
#define VF_MAIN
#include "common/fachook.hpp"
#include "common/framework.hpp"
#include "common/zoo.hpp"
#include <Spectra/DavidsonSymEigsSolver.h>
#include <Spectra/contrib/PartialSVDSolver.h>
#include <Spectra/contrib/LOBPCGSolver.h>

#ifdef VF_HAVE_ASAN
extern "C" size_t __sanitizer_get_current_allocated_bytes();
extern "C" int __lsan_do_recoverable_leak_check();
#endif

using T = double;
using namespace vz;
const char* vf_driver() { return "c12_args"; }

static size_t heap_bytes()
{
#ifdef VF_HAVE_ASAN
    return __sanitizer_get_current_allocated_bytes();
#else
    return 0;
#endif
}

// outcome of a call: 0 accepted, 1 std::invalid_argument, 2 another exception type
template <class F> static int classify(F&& f, std::string& other)
{
    try { f(); return 0; }
    catch (const std::invalid_argument&) { return 1; }
    catch (const std::exception& e) { other = typeid(e).name(); return 2; }
    catch (...) { other = "unknown"; return 2; }
}

#if ZOO_GROUP != 3
// every (nev, ncv) in the box for one family and one n
template <class Fac>
static void sweep_family(vf::Ctx& ctx, const Fac& fac0, int n)
{
    Data<T> d = fac0.d;
    const bool gen = Fac::is_gen;
    auto ops = fac0.make_ops();   // the operator itself is legal for every n
    long rejected = 0, accepted = 0;
    {
        // warm-up: the first construction lets a shift operator install its factorization (memory the operator legitimately keeps)
        d.nev = -1; d.ncv = -1;
        std::string o;
        classify([&]() { auto tmp = Fac(d).make_solver(*ops); }, o);
    }
    for (int nev = -2; nev <= n + 3; nev++)
        for (int ncv = -2; ncv <= n + 3; ncv++)
        {
            const bool valid = gen ? (nev >= 1 && nev <= n - 2 && ncv >= nev + 2 && ncv <= n) : (nev >= 1 && nev <= n - 1 && ncv > nev && ncv <= n);
            d.nev = nev; d.ncv = ncv;
            Fac fac(d);
            // warm-up for lazily allocated one-time buffers of the allocator / Eigen, then the measured call
            std::string other;
            const size_t b0 = heap_bytes();
            std::unique_ptr<typename Fac::Solver> es;
            const int out = classify([&]() { es = fac.make_solver(*ops); }, other);
            auto info = [&]() { return vf::J().kv("solver", FAMILY[d.family]).kv("n", n).kv("nev", nev).kv("ncv", ncv).kv("documented_valid", valid); };
            if (!valid)
            {
                rejected++;
                if (out != 1) ctx.violation(std::string(FAMILY[d.family]) + (out == 0 ? "/invalid-nev-ncv-accepted" : "/invalid-nev-ncv-wrong-exception-type"), info().kv("other", other).str());
                es.reset();
                const size_t b1 = heap_bytes();
                if (b1 != b0) ctx.violation(std::string(FAMILY[d.family]) + "/rejected-constructor-changed-allocated-bytes", info().kv("before", (long) b0).kv("after", (long) b1).str());
            }
            else
            {
                accepted++;
                if (out != 0) { ctx.violation(std::string(FAMILY[d.family]) + "/valid-nev-ncv-rejected", info().kv("other", other).kv("kind", out).str()); continue; }
                // a valid configuration must also run: init(); compute() with a small maxit without invalid_argument / logic_error
                std::string o2;
                int r2 = 0;
                try { es->init(); es->compute(fac.select_rules()[0], 3, T(1e-8), fac.sort_rules()[0]); }
                catch (const std::invalid_argument&) { r2 = 1; }
                catch (const std::logic_error&) { r2 = 2; }
                catch (const std::runtime_error&) { r2 = 0; ctx.count("valid_config_runtime_error"); }
                if (r2 != 0) ctx.violation(std::string(FAMILY[d.family]) + "/valid-configuration-does-not-run", info().kv("exception", r2 == 1 ? "invalid_argument" : "logic_error").str());
            }
        }
    ctx.count("constructor_calls", rejected + accepted);
    ctx.count("constructor_calls_rejected", rejected);
    ctx.count("constructor_calls_accepted", accepted);
    ctx.count("evals", rejected + accepted);
}

// all nine rules as selection and as sorting; zero start vectors; a rejected call leaves the solver usable and bit-identical to a fresh one
template <class Fac>
static void rules_family(vf::Ctx& ctx, const Fac& fac)
{
    using Scalar = typename Fac::Scalar;
    using Vec = Eigen::Matrix<Scalar, Eigen::Dynamic, 1>;
    const auto& d = fac.d;
    auto ops = fac.make_ops();
    auto es = fac.make_solver(*ops);
    auto in = [](const std::vector<SortRule>& v, SortRule r) { return std::find(v.begin(), v.end(), r) != v.end(); };
    // reference run on a fresh solver
    Snapshot ref;
    {
        auto ops2 = fac.make_ops();
        auto es2 = fac.make_solver(*ops2);
        es2->init();
        ref = snapshot(*es2, (long) es2->compute(fac.select_rules()[0], 50, T(1e-9), fac.sort_rules()[0]));
    }
    auto same_as_fresh = [&](const char* after, const std::string& what) {
        es->init();
        Snapshot s = snapshot(*es, (long) es->compute(fac.select_rules()[0], 50, T(1e-9), fac.sort_rules()[0]));
        if (!(s == ref)) ctx.violation(std::string(FAMILY[d.family]) + "/solver-differs-from-fresh-after-rejected-" + after, vf::J().kv("solver", FAMILY[d.family]).kv("rejected", what).kv("differs_in", ref.diff(s)).str());
    };
    // the rule is validated in whatever state the object is: directly after init(), after a compute() that converged (no init() in between: the
    // factorization is complete and the Ritz pairs are there), after one that ran out of iterations
    static const char* STATE[] = {"after-init", "after-a-converged-compute", "after-a-compute-that-did-not-converge"};
    for (int st = 0; st < 3; st++)
    for (int i = 0; i < 9; i++)
    {
        const SortRule r = ALL_RULES[i];
        auto prepare = [&]() {
            es->init();
            if (st == 1) { const long got = (long) es->compute(fac.select_rules()[0], 500, T(1e-6), fac.sort_rules()[0]); ctx.count(got == d.nev ? "rule_state/converged-compute-before" : "rule_state/wanted-converged-but-was-not"); }
            if (st == 2) { (void) es->compute(fac.select_rules()[0], 1, T(1e-14), fac.sort_rules()[0]); ctx.count("rule_state/unconverged-compute-before"); }
        };
        // as selection
        {
            std::string other;
            prepare();
            const size_t b0 = heap_bytes();
            const int out = classify([&]() { es->compute(r, 5, T(1e-8), fac.sort_rules()[0]); }, other);
            const bool ok = in(fac.select_rules(), r);
            ctx.count("rule_calls");
            if (ok && out != 0) ctx.violation(std::string(FAMILY[d.family]) + "/supported-selection-rejected", vf::J().kv("rule", rule_name(r)).kv("state", STATE[st]).kv("other", other).str());
            if (!ok && out != 1) ctx.violation(std::string(FAMILY[d.family]) + (out == 0 ? "/unsupported-selection-accepted" : "/unsupported-selection-wrong-exception-type"), vf::J().kv("rule", rule_name(r)).kv("state", STATE[st]).kv("other", other).str());
            if (!ok && out == 1) { (void) b0; same_as_fresh("compute", std::string("selection=") + rule_name(r)); }
        }
        // as sorting
        {
            std::string other;
            prepare();
            const int out = classify([&]() { es->compute(fac.select_rules()[0], 5, T(1e-8), r); }, other);
            const bool ok = in(fac.sort_rules(), r);
            ctx.count("rule_calls");
            if (ok && out != 0) ctx.violation(std::string(FAMILY[d.family]) + "/supported-sorting-rejected", vf::J().kv("rule", rule_name(r)).kv("state", STATE[st]).kv("other", other).str());
            if (!ok && out != 1) ctx.violation(std::string(FAMILY[d.family]) + (out == 0 ? "/unsupported-sorting-accepted" : "/unsupported-sorting-wrong-exception-type"), vf::J().kv("rule", rule_name(r)).kv("state", STATE[st]).kv("other", other).str());
            if (!ok && out == 1) same_as_fresh("compute", std::string("sorting=") + rule_name(r));
        }
    }
    // zero start vectors: +0.0, -0.0 and mixed
    for (int z = 0; z < 3; z++)
    {
        Vec v(d.n);
        for (int i = 0; i < d.n; i++) v[i] = Scalar(z == 0 ? T(0.0) : (z == 1 ? T(-0.0) : (i % 2 ? T(0.0) : T(-0.0))));
        std::string other;
        const size_t b0 = heap_bytes();
        const int out = classify([&]() { es->init(v.data()); }, other);
        ctx.count("zero_vector_calls");
        if (out != 1) ctx.violation(std::string(FAMILY[d.family]) + (out == 0 ? "/zero-start-vector-accepted" : "/zero-start-vector-wrong-exception-type"), vf::J().kv("zero_kind", z).kv("other", other).str());
        (void) b0;
        same_as_fresh("init", "zero start vector");
    }
    ctx.count("evals", 57);
}
#endif

#if ZOO_GROUP == 2
// sigma = 0 is rejected in buckling and Cayley mode, accepted in shift-and-invert mode
static void sigma_zero(vf::Ctx& ctx)
{
    auto& r = ctx.rng;
    for (int f : {14, 15, 16})
    {
        Data<T> d = make_data<T>(r, f, 12, false);
        if (d.n < 4) d = make_data<T>(r, f, 12, false);
        d.sigma = T(0);
        with_family<T>(d, [&](auto fac) {
            std::string other;
            auto ops = fac.make_ops();
            const size_t b0 = heap_bytes();
            const int out = classify([&]() { auto es = fac.make_solver(*ops); }, other);
            const size_t b1 = heap_bytes();
            ctx.count("sigma_zero_calls");
            if (f != 14 && out != 1) ctx.violation(std::string(FAMILY[f]) + (out == 0 ? "/sigma-zero-accepted" : "/sigma-zero-wrong-exception-type"), vf::J().kv("other", other).str());
            if (f != 14 && b1 != b0) ctx.violation(std::string(FAMILY[f]) + "/rejected-constructor-changed-allocated-bytes", vf::J().kv("before", (long) b0).kv("after", (long) b1).str());
            // shift-and-invert with sigma = 0 is legal when A itself is nonsingular; a singular A - 0*B is a documented invalid_argument too
            if (f == 14 && out == 2) ctx.violation(std::string(FAMILY[f]) + "/sigma-zero-wrong-exception-type", vf::J().kv("other", other).str());
        });
    }
    ctx.count("evals", 3);
}
#endif

#if ZOO_GROUP == 3
// Davidson, PartialSVD, LOBPCG and the wrapper constructors
static void other_classes(vf::Ctx& ctx, int n)
{
    auto& r = ctx.rng;
    Eigen::MatrixXd A = vg::sym_matrix(r, n, 0, 1.0);
    A.diagonal().array() += 3.0;
    // Davidson: 1 <= nev <= n-1
    {
        Spectra::DenseSymMatProd<T> op(A);
        for (int nev = -2; nev <= n + 3; nev++)
        {
            const bool valid = nev >= 1 && nev <= n - 1;
            std::string other;
            const size_t b0 = heap_bytes();
            const int out = classify([&]() { Spectra::DavidsonSymEigsSolver<Spectra::DenseSymMatProd<T>> s(op, nev); }, other);
            const size_t b1 = heap_bytes();
            ctx.count("constructor_calls");
            auto info = [&]() { return vf::J().kv("solver", "DavidsonSymEigsSolver").kv("n", n).kv("nev", nev); };
            if (!valid && out != 1) ctx.violation(std::string("DavidsonSymEigsSolver") + (out == 0 ? "/invalid-nev-accepted" : "/invalid-nev-wrong-exception-type"), info().kv("other", other).str());
            if (valid && out != 0) ctx.violation("DavidsonSymEigsSolver/valid-nev-rejected", info().kv("other", other).str());
            if (!valid && b1 != b0) ctx.violation("DavidsonSymEigsSolver/rejected-constructor-changed-allocated-bytes", info().str());
        }
    }
    // PartialSVD on m x n: as the symmetric family on min(m, n)
    for (int m : {n, n + 2, std::max(1, n - 1)})
    {
        Eigen::MatrixXd M = vg::rand_gauss(r, m, n);
        const int mn = std::min(m, n);
        for (int ncomp = -2; ncomp <= mn + 3; ncomp++)
            for (int ncv = -2; ncv <= mn + 3; ncv++)
            {
                const bool valid = ncomp >= 1 && ncomp <= mn - 1 && ncv > ncomp && ncv <= mn;
                std::string other;
                const size_t b0 = heap_bytes();
                const int out = classify([&]() { Spectra::PartialSVDSolver<Eigen::MatrixXd> s(M, ncomp, ncv); }, other);
                const size_t b1 = heap_bytes();
                ctx.count("constructor_calls");
                auto info = [&]() { return vf::J().kv("solver", "PartialSVDSolver").kv("m", m).kv("n", n).kv("ncomp", ncomp).kv("ncv", ncv); };
                if (!valid && out != 1) ctx.violation(std::string("PartialSVDSolver") + (out == 0 ? "/invalid-ncomp-ncv-accepted" : "/invalid-ncomp-ncv-wrong-exception-type"), info().kv("other", other).str());
                if (valid && out != 0) ctx.violation("PartialSVDSolver/valid-ncomp-ncv-rejected", info().kv("other", other).str());
                if (!valid && b1 != b0) ctx.violation("PartialSVDSolver/rejected-constructor-leaks", info().kv("before", (long) b0).kv("after", (long) b1).str());
            }
    }
    // LOBPCG size checks: A square, X with as many rows as A, B of A's shape
    {
        using Sp = Eigen::SparseMatrix<long double>;
        for (int ar = 1; ar <= 4; ar++) for (int ac = 1; ac <= 4; ac++) for (int xr = 1; xr <= 4; xr++)
        {
            Sp As(ar, ac), X(xr, 1);
            const bool valid = ar == ac && xr == ar;
            std::string other;
            const int out = classify([&]() { Spectra::LOBPCGSolver<long double> s(As, X); }, other);
            ctx.count("constructor_calls");
            if (!valid && out != 1) ctx.violation(std::string("LOBPCGSolver") + (out == 0 ? "/wrong-sizes-accepted" : "/wrong-sizes-wrong-exception-type"), vf::J().kv("A", std::to_string(ar) + "x" + std::to_string(ac)).kv("X_rows", xr).kv("other", other).str());
            if (valid && out != 0) ctx.violation("LOBPCGSolver/valid-sizes-rejected", vf::J().kv("A", std::to_string(ar) + "x" + std::to_string(ac)).str());
            if (valid)
                for (int br = 1; br <= 4; br++) for (int bc = 1; bc <= 4; bc++)
                {
                    Sp Bs(br, bc);
                    std::string o2;
                    Spectra::LOBPCGSolver<long double> s(As, X);
                    const int o = classify([&]() { s.setB(Bs); }, o2);
                    const bool bv = br == ar && bc == ac;
                    if (!bv && o != 1) ctx.violation(std::string("LOBPCGSolver") + (o == 0 ? "/wrong-B-size-accepted" : "/wrong-B-size-wrong-exception-type"), vf::J().kv("B", std::to_string(br) + "x" + std::to_string(bc)).str());
                    if (bv && o != 0) ctx.violation("LOBPCGSolver/valid-B-rejected", "{}");
                }
        }
    }
    ctx.count("evals");
}

// wrappers that require a square matrix: every shape up to 4x4
template <class X> struct TypeTag { using type = X; };
template <class Op, class M> static void shape_check(vf::Ctx& ctx, const char* name, bool sparse_no_check = false)
{
    for (int rr = 1; rr <= 4; rr++)
        for (int cc = 1; cc <= 4; cc++)
        {
            M mat(rr, cc);
            mat.setZero();
            std::string other;
            const size_t b0 = heap_bytes();
            const int out = classify([&]() { Op op(mat); }, other);
            const size_t b1 = heap_bytes();
            ctx.count("wrapper_constructor_calls");
            const bool square = rr == cc;
            if (square && out == 2) ctx.violation(std::string(name) + "/square-input-wrong-exception-type", vf::J().kv("shape", std::to_string(rr) + "x" + std::to_string(cc)).kv("other", other).str());
            if (!square && !sparse_no_check && out != 1)
                ctx.violation(std::string(name) + (out == 0 ? "/non-square-accepted" : "/non-square-wrong-exception-type"), vf::J().kv("shape", std::to_string(rr) + "x" + std::to_string(cc)).kv("other", other).str());
            if (!square && out == 1 && b1 != b0) ctx.violation(std::string(name) + "/rejected-constructor-changed-allocated-bytes", vf::J().kv("shape", std::to_string(rr) + "x" + std::to_string(cc)).str());
        }
}
static void wrapper_shapes(vf::Ctx& ctx)
{
    using MD = Eigen::MatrixXd;
    using MS = Eigen::SparseMatrix<double>;
    // the wrappers whose documentation requires a square matrix and whose constructor checks it
    shape_check<Spectra::DenseSymMatProd<T>, MD>(ctx, "DenseSymMatProd");
    shape_check<Spectra::SparseSymMatProd<T>, MS>(ctx, "SparseSymMatProd");
    shape_check<Spectra::DenseHermMatProd<std::complex<T>>, Eigen::MatrixXcd>(ctx, "DenseHermMatProd");
    shape_check<Spectra::SparseHermMatProd<std::complex<T>>, Eigen::SparseMatrix<std::complex<double>>>(ctx, "SparseHermMatProd");
    shape_check<Spectra::DenseSymShiftSolve<T>, MD>(ctx, "DenseSymShiftSolve");
    shape_check<Spectra::DenseGenRealShiftSolve<T>, MD>(ctx, "DenseGenRealShiftSolve");
    shape_check<Spectra::DenseGenComplexShiftSolve<T>, MD>(ctx, "DenseGenComplexShiftSolve");
    shape_check<Spectra::DenseCholesky<T>, MD>(ctx, "DenseCholesky");
    shape_check<Spectra::SparseSymShiftSolve<T>, MS>(ctx, "SparseSymShiftSolve");
    shape_check<Spectra::SparseGenRealShiftSolve<T>, MS>(ctx, "SparseGenRealShiftSolve");
    shape_check<Spectra::SparseGenComplexShiftSolve<T>, MS>(ctx, "SparseGenComplexShiftSolve");
    shape_check<Spectra::SparseCholesky<T>, MS>(ctx, "SparseCholesky");
    shape_check<Spectra::SparseRegularInverse<T>, MS>(ctx, "SparseRegularInverse");
    // general product wrappers accept rectangular input by design (used by the SVD solver): only "no wrong exception type"
    shape_check<Spectra::DenseGenMatProd<T>, MD>(ctx, "DenseGenMatProd", true);
    shape_check<Spectra::SparseGenMatProd<T>, MS>(ctx, "SparseGenMatProd", true);
    // SymShiftInvert: A and B square and of the same size - every pair of shapes up to 4x4, every dense/sparse pairing
    auto ssi_pairs = [&](auto tagA, auto tagB, const char* nm) {
        using MA = typename decltype(tagA)::type;
        using MB = typename decltype(tagB)::type;
        using KA = typename std::conditional<std::is_same<MA, MD>::value, Eigen::Dense, Eigen::Sparse>::type;
        using KB = typename std::conditional<std::is_same<MB, MD>::value, Eigen::Dense, Eigen::Sparse>::type;
        for (int a = 1; a <= 4; a++) for (int b = 1; b <= 4; b++) for (int c = 1; c <= 4; c++) for (int d = 1; d <= 4; d++)
        {
            MA A(a, b);
            MB B(c, d);
            A.setZero(); B.setZero();
            std::string other;
            const int out = classify([&]() { Spectra::SymShiftInvert<T, KA, KB> op(A, B); }, other);
            const bool valid = a == b && c == d && c == a;
            ctx.count("wrapper_constructor_calls");
            if (!valid && out != 1)
                ctx.violation(std::string("SymShiftInvert<") + nm + ">" + (out == 0 ? "/mismatched-shapes-accepted" : "/mismatched-shapes-wrong-exception-type"),
                              vf::J().kv("A", std::to_string(a) + "x" + std::to_string(b)).kv("B", std::to_string(c) + "x" + std::to_string(d)).str());
            if (valid && out != 0) ctx.violation(std::string("SymShiftInvert<") + nm + ">/valid-shapes-rejected", vf::J().kv("n", a).str());
        }
    };
    ssi_pairs(TypeTag<MD>(), TypeTag<MD>(), "Dense,Dense");
    ssi_pairs(TypeTag<MD>(), TypeTag<MS>(), "Dense,Sparse");
    ssi_pairs(TypeTag<MS>(), TypeTag<MD>(), "Sparse,Dense");
    ssi_pairs(TypeTag<MS>(), TypeTag<MS>(), "Sparse,Sparse");
    ctx.count("evals");
}
#endif

long vf_ncases(const vf::Ctx& ctx)
{
    (void) ctx;
#if ZOO_GROUP == 3
    return 12 + 1;
#else
    const long nf = (long) compiled_families().size();
    return nf * 12 + nf * 2 + (ZOO_GROUP == 2 ? 2 : 0);
#endif
}

void vf_run_case(vf::Ctx& ctx, long idx)
{
    auto& r = ctx.rng;
#if ZOO_GROUP == 3
    if (idx < 12) { other_classes(ctx, (int) idx + 1); ctx.nontriv("other/" + std::to_string(idx)); ctx.set_sample(vf::J().kv("kind", "Davidson / PartialSVD / LOBPCG argument box").kv("n", idx + 1).str()); }
    else { wrapper_shapes(ctx); ctx.nontriv("wrapper-shapes"); ctx.set_sample(vf::J().kv("kind", "wrapper constructors with every shape up to 4x4").str()); }
#else
    const auto fams = compiled_families();
    const long nf = (long) fams.size();
    if (idx < nf * 12)
    {
        const int f = fams[(size_t) (idx % nf)];
        const int n = (int) (idx / nf) + 1;
        Data<T> d = make_data<T>(r, f, 12, false);
        // force the size; regenerate the matrices at that size
        for (int tries = 0; tries < 200 && d.n != n; tries++) d = make_data<T>(r, f, n == 1 ? 2 : n, false);
        if (d.n != n)
        {
            // n = 1 (and any size the generator did not hit): build directly
            d.n = n;
            d.A = (family_is_gen(f) ? vg::gen_matrix(r, n, 0, 1.0) : vg::sym_matrix(r, n, 0, 1.0)).cast<T>();
            d.A.diagonal().array() += T(2);
            d.As = d.A.sparseView();
            d.AH = d.A.cast<std::complex<T>>();
            d.B = Eigen::MatrixXd::Identity(n, n).cast<T>() * T(1.5);
            d.Bs = d.B.sparseView();
            if (f == 15) { d.B = d.A; d.Bs = d.As; d.A = Eigen::MatrixXd::Identity(n, n).cast<T>() * T(1.5); d.As = d.A.sparseView(); }
            d.sigma = T(0.37); d.sigmai = T(0.5);
        }
        with_family<T>(d, [&](auto fac) { sweep_family(ctx, fac, n); });
        ctx.nontriv(std::string("sweep/") + FSHORT[f] + "/" + std::to_string(n));
        if (ctx.want_sample) ctx.set_sample(vf::J().kv("kind", "(nev, ncv) box").kv("solver", FAMILY[f]).kv("n", n).kv("box", "[-2, n+3]^2").str());
        return;
    }
    idx -= nf * 12;
    if (idx < nf * 2)
    {
        const int f = fams[(size_t) (idx % nf)];
        Data<T> d = make_data<T>(r, f, 14, false);
        for (int tries = 0; tries < 50 && d.n < 8; tries++) d = make_data<T>(r, f, 14, false);
        with_family<T>(d, [&](auto fac) { rules_family(ctx, fac); });
        ctx.nontriv(std::string("rules/") + FSHORT[f] + "/" + std::to_string(idx));
        if (ctx.want_sample) ctx.set_sample(vf::J().kv("kind", "nine rules as selection and sorting, zero start vectors").kv("solver", FAMILY[f]).kv("n", d.n).str());
        return;
    }
#if ZOO_GROUP == 2
    sigma_zero(ctx);
    ctx.nontriv("sigma-zero/" + std::to_string(idx));
    ctx.set_sample(vf::J().kv("kind", "sigma = 0 in ShiftInvert / Buckling / Cayley").str());
#endif
#endif
}
