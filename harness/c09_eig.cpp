// C09 - small dense eigen-decompositions: TridiagEigen, UpperHessenbergSchur, UpperHessenbergEigen. One scalar type per build.
#define VF_MAIN
#include "common/framework.hpp"
#include "common/oracle.hpp"
#include <Eigen/Eigenvalues>
// Failpoint (guarded hook in TridiagEigen.h / UpperHessenbergSchur.h): the harness can lower the iteration limit of the dense kernels, so that the
// "iteration limit hit" clause of the property is observed on ordinary inputs (no finite input is known that exhausts the library's own 30n / 40n limits).
namespace c09lim { static thread_local long limit = -1; }
#define SPECTRA_VERIF_ITER_LIMIT(who, dflt) (c09lim::limit >= 0 ? (decltype(dflt)) c09lim::limit : (dflt))
#include <Spectra/LinAlg/TridiagEigen.h>
#include <Spectra/LinAlg/UpperHessenbergSchur.h>
#include <Spectra/LinAlg/UpperHessenbergEigen.h>

#ifndef C09_T
#define C09_T double
#endif
using T = C09_T;
using namespace vo;
using Mat = Eigen::Matrix<T, Eigen::Dynamic, Eigen::Dynamic>;
using Vec = Eigen::Matrix<T, Eigen::Dynamic, 1>;
using CMat = Eigen::Matrix<std::complex<T>, Eigen::Dynamic, Eigen::Dynamic>;
using CVec = Eigen::Matrix<std::complex<T>, Eigen::Dynamic, 1>;

const char* vf_driver() { return "c09_eig"; }

static const LD C = 64;  // allowance constant: worst observed ratio on the unchanged tree is ~4 at c = 1

static const char* HP[] = {"random", "integer", "graded", "zero-subdiag", "repeated-eigenvalues", "jordan-like", "companion", "zero-matrix",
                           "scaled-big", "scaled-small", "orthogonal-hess", "triangular"};
static const char* TP[] = {"random", "integer", "graded", "zero-subdiag", "repeated", "wilkinson", "toeplitz-121", "zero-matrix", "scaled-big",
                           "scaled-small", "glued", "diagonal"};

static T big_scale()
{
    if (sizeof(T) == 4) return T(1e15);
    if (std::numeric_limits<T>::max_exponent > 2000) return std::pow(T(10), T(2000));
    return T(1e150);
}

static std::string mat_str(const Mat& H)
{
    std::ostringstream o;
    o.precision(9);
    const int n = (int) H.rows();
    o << "[";
    for (int i = 0; i < n && i < 7; i++)
    {
        o << (i ? ";" : "");
        for (int j = 0; j < n && j < 7; j++) o << (j ? " " : "") << (LD) H(i, j);
    }
    o << (n > 7 ? " ...]" : "]");
    return o.str();
}

// Hessenberg form of a dense matrix (Eigen's reduction, in working precision - only a generator)
static Mat hess_of(const Mat& A)
{
    if (A.rows() < 3) return A;
    Eigen::HessenbergDecomposition<Mat> hd(A);
    Mat H = hd.matrixH();
    for (int j = 0; j < H.cols(); j++)
        for (int i = j + 2; i < H.rows(); i++) H(i, j) = T(0);
    return H;
}
static Mat rand_orth(vf::Rng& r, int n)
{
    Mat G(n, n);
    for (int i = 0; i < n; i++) for (int j = 0; j < n; j++) G(i, j) = T(r.gauss());
    Eigen::HouseholderQR<Mat> qr(G);
    return qr.householderQ();
}

static Mat gen_hess(vf::Ctx& ctx, int n, int pat)
{
    auto& r = ctx.rng;
    Mat H = Mat::Zero(n, n);
    auto fillh = [&](auto f) { for (int j = 0; j < n; j++) for (int i = 0; i <= std::min(n - 1, j + 1); i++) H(i, j) = f(i, j); };
    switch (pat)
    {
        case 0: fillh([&](int, int) { return T(r.gauss()); }); break;
        case 1: fillh([&](int, int) { return T(r.range(-4, 4)); }); break;
        case 2:
        {
            const double dec = (sizeof(T) == 4 ? 6.0 : 16.0) / std::max(1, 2 * n - 2);
            const bool up = r.coin();
            fillh([&](int i, int j) { int e = up ? (i + j) : (2 * n - 2 - i - j); return T(r.gauss() * std::pow(10.0, -dec * e)); });
            break;
        }
        case 3:
            fillh([&](int, int) { return T(r.coin(0.5) ? r.gauss() : (double) r.range(-3, 3)); });
            for (int i = 0; i + 1 < n; i++) if (r.coin(0.4)) H(i + 1, i) = 0;
            break;
        case 4:
        {
            // orthogonally similar to a matrix with few distinct (repeated) real eigenvalues / rotation blocks
            Mat D = Mat::Zero(n, n);
            const int kinds = (int) r.range(1, 3);
            for (int i = 0; i < n; i++) D(i, i) = T(r.range(0, kinds - 1)) + T(1);
            if (n >= 4 && r.coin()) { D(0, 0) = D(1, 1) = T(0.5); D(0, 1) = T(1.5); D(1, 0) = T(-1.5); D(2, 2) = D(3, 3) = T(0.5); D(2, 3) = T(1.5); D(3, 2) = T(-1.5); }
            Mat Q = rand_orth(r, n);
            H = hess_of(Q * D * Q.transpose());
            break;
        }
        case 5:
        {
            // Jordan-like: bidiagonal with equal diagonal blocks (already Hessenberg), optionally hidden by an orthogonal similarity
            int i = 0;
            while (i < n)
            {
                const int bs = (int) r.range(1, std::min(4, n - i));
                const T lam = T(r.range(-2, 2));
                for (int k = 0; k < bs; k++) { H(i + k, i + k) = lam; if (k + 1 < bs) H(i + k, i + k + 1) = T(1); }
                i += bs;
            }
            if (r.coin(0.5)) { Mat Q = rand_orth(r, n); H = hess_of(Q * H * Q.transpose()); }
            break;
        }
        case 6:
        {
            // companion matrix of a monic polynomial with small integer coefficients
            for (int i = 0; i + 1 < n; i++) H(i + 1, i) = T(1);
            for (int i = 0; i < n; i++) H(i, n - 1) = T(r.range(-3, 3));
            if (H(0, n - 1) == T(0) && r.coin()) H(0, n - 1) = T(1);
            break;
        }
        case 7: break;
        case 8: fillh([&](int, int) { return T(r.gauss()); }); H *= big_scale(); break;
        case 9: fillh([&](int, int) { return T(r.gauss()); }); H /= big_scale(); break;
        case 10: H = hess_of(rand_orth(r, n)); break;  // all eigenvalues of modulus 1
        default:
            for (int j = 0; j < n; j++) for (int i = 0; i <= j; i++) H(i, j) = T(r.coin(0.3) ? (double) r.range(-2, 2) : r.gauss());
    }
    return H;
}

static Mat gen_tri(vf::Ctx& ctx, int n, int pat)
{
    auto& r = ctx.rng;
    Mat A = Mat::Zero(n, n);
    auto sett = [&](auto fd, auto fs) {
        for (int i = 0; i < n; i++) A(i, i) = fd(i);
        for (int i = 0; i + 1 < n; i++) A(i + 1, i) = A(i, i + 1) = fs(i);
    };
    switch (pat)
    {
        case 0: sett([&](int) { return T(r.gauss()); }, [&](int) { return T(r.gauss()); }); break;
        case 1: sett([&](int) { return T(r.range(-4, 4)); }, [&](int) { return T(r.range(-4, 4)); }); break;
        case 2:
        {
            const double dec = (sizeof(T) == 4 ? 6.0 : 16.0) / std::max(1, n - 1);
            const bool up = r.coin();
            sett([&](int i) { return T(r.gauss() * std::pow(10.0, -dec * (up ? i : n - 1 - i))); },
                 [&](int i) { return T(r.gauss() * std::pow(10.0, -dec * (up ? i + 0.5 : n - 1.5 - i))); });
            break;
        }
        case 3: sett([&](int) { return T(r.gauss()); }, [&](int) { return r.coin(0.4) ? T(0) : T(r.gauss()); }); break;
        case 4: sett([&](int) { return T(r.range(0, 1)); }, [&](int) { return r.coin(0.6) ? T(0) : T(std::numeric_limits<T>::epsilon()) * T(r.gauss()); }); break;
        case 5: sett([&](int i) { return T(std::abs(n / 2 - i)); }, [&](int) { return T(1); }); break;
        case 6: sett([&](int) { return T(2); }, [&](int) { return T(-1); }); break;
        case 7: break;
        case 8: sett([&](int) { return T(r.gauss()); }, [&](int) { return T(r.gauss()); }); A *= big_scale(); break;
        case 9: sett([&](int) { return T(r.gauss()); }, [&](int) { return T(r.gauss()); }); A /= big_scale(); break;
        case 10:
        {
            // glued Wilkinson-like blocks joined by tiny couplings
            const int b = std::max(2, n / 3);
            sett([&](int i) { return T(std::abs(b / 2 - (i % b))); }, [&](int i) { return ((i + 1) % b == 0) ? T(1e-7) : T(1); });
            break;
        }
        default: sett([&](int) { return T(r.range(-2, 2)); }, [&](int) { return T(0); });
    }
    return A;
}

static void check_tridiag(vf::Ctx& ctx, int n, int pat, const Mat& A)
{
    const LD u = unit<T>();
    const MatLD Al = toLD(A);
    const LD an = fnorm(Al);
    auto bad = [&](const char* what, LD obs, LD al) {
        ctx.violation(std::string("TridiagEigen/") + what, vf::J().kv("scalar", Name<T>::s()).kv("n", n).kv("pattern", TP[pat]).kv("check", what).kv("observed", obs).kv("allowed", al).kv("T", mat_str(A)).str());
    };
    Vec d;
    Mat Z;
    try
    {
        Spectra::TridiagEigen<T> eg(A);
        d = eg.eigenvalues();
        Z = eg.eigenvectors();
    }
    catch (const std::runtime_error& e) { bad("threw-runtime_error", 0, 0); return; }
    if (d.size() != n || Z.rows() != n || Z.cols() != n) { bad("wrong-shape", 0, 0); return; }
    if (!all_finite(d) || !all_finite(Z)) { bad("non-finite-output", 0, 0); return; }
    const MatLD Zl = toLD(Z);
    LD e = orth_err(Zl);
    if (!within(ctx, "TridiagEigen/orthogonality", e, C * n * u)) bad("Z-not-orthogonal", e, C * n * u);
    const VecLD dl = toLD(d);
    e = fnorm(MatLD(Al * Zl - Zl * dl.asDiagonal()));
    const LD allow = C * n * u * (an > 0 ? an : LD(1e-300L));
    if (!within(ctx, "TridiagEigen/TZ=ZD", e, allow)) bad("TZ!=ZD", e, allow);
}

static void check_schur(vf::Ctx& ctx, int n, int pat, const Mat& H)
{
    const LD u = unit<T>();
    const MatLD Hl = toLD(H);
    const LD hn = fnorm(Hl);
    auto bad = [&](const char* what, LD obs, LD al) {
        ctx.violation(std::string("UpperHessenbergSchur/") + what + (pat == 8 ? "/scaled-big" : pat == 9 ? "/scaled-small" : ""),
                      vf::J().kv("scalar", Name<T>::s()).kv("n", n).kv("pattern", HP[pat]).kv("check", what).kv("observed", obs).kv("allowed", al).kv("H", mat_str(H)).str());
    };
    Mat Tm, U;
    try
    {
        Spectra::UpperHessenbergSchur<T> sc(H);
        Tm = sc.matrix_T();
        U = sc.matrix_U();
    }
    catch (const std::runtime_error& e) { bad("threw-runtime_error", 0, 0); return; }
    if (Tm.rows() != n || Tm.cols() != n || U.rows() != n || U.cols() != n) { bad("wrong-shape", 0, 0); return; }
    if (!all_finite(Tm) || !all_finite(U)) { bad("non-finite-output", 0, 0); return; }
    bool quasi = true;
    for (int j = 0; j < n; j++) for (int i = j + 2; i < n; i++) quasi = quasi && (Tm(i, j) == T(0));
    for (int i = 0; i + 2 < n; i++) quasi = quasi && !(Tm(i + 1, i) != T(0) && Tm(i + 2, i + 1) != T(0));
    if (!quasi) bad("T-not-quasi-triangular", 0, 0);
    const MatLD Ul = toLD(U);
    LD e = orth_err(Ul);
    if (!within(ctx, "UpperHessenbergSchur/orthogonality", e, C * n * u)) bad("U-not-orthogonal", e, C * n * u);
    e = fnorm(MatLD(Ul * toLD(Tm) * Ul.transpose() - Hl));
    const LD allow = C * n * u * (hn > 0 ? hn : LD(1e-300L));
    if (!within(ctx, "UpperHessenbergSchur/UTU'=H", e, allow)) bad("UTU'!=H", e, allow);
}

static void check_hesseig(vf::Ctx& ctx, int n, int pat, const Mat& H)
{
    const LD u = unit<T>();
    const MatCLD Hl = toCLD(H);
    const LD hn = fnorm(toLD(H));
    auto bad = [&](const char* what, LD obs, LD al) {
        ctx.violation(std::string("UpperHessenbergEigen/") + what + (pat == 7 ? "/zero-matrix" : ""),
                      vf::J().kv("scalar", Name<T>::s()).kv("n", n).kv("pattern", HP[pat]).kv("check", what).kv("observed", obs).kv("allowed", al).kv("H", mat_str(H)).str());
    };
    CVec ev;
    CMat X;
    try
    {
        Spectra::UpperHessenbergEigen<T> eg(H);
        ev = eg.eigenvalues();
        X = eg.eigenvectors();
    }
    catch (const std::runtime_error& e) { bad("threw-runtime_error", 0, 0); return; }
    if (ev.size() != n || X.rows() != n || X.cols() != n) { bad("wrong-shape", 0, 0); return; }
    if (!all_finite(ev) || !all_finite(X)) { bad("non-finite-output", 0, 0); return; }
    // exact pairing convention
    for (int i = 0; i < n;)
    {
        if (ev[i].imag() == T(0)) { i++; continue; }
        if (i + 1 >= n || !(ev[i].imag() > T(0)) || ev[i + 1].real() != ev[i].real() || ev[i + 1].imag() != -ev[i].imag())
        {
            bad("conjugate-pair-convention", (LD) i, 0);
            break;
        }
        i += 2;
    }
    const LD allow = C * n * u * (hn > 0 ? hn : LD(1e-300L));
    const MatCLD Xl = toCLD(X);
    LD worst_norm = 0, worst_res = 0;
    for (int j = 0; j < n; j++)
    {
        const LD nx = Xl.col(j).norm();
        worst_norm = std::max(worst_norm, std::abs(nx - 1));
        VecCLD rr = Hl * Xl.col(j) - CLD((LD) ev[j].real(), (LD) ev[j].imag()) * Xl.col(j);
        worst_res = std::max(worst_res, fnorm(rr));
    }
    if (!within(ctx, "UpperHessenbergEigen/unit-norm", worst_norm, C * n * u)) bad("eigenvector-not-unit", worst_norm, C * n * u);
    if (!within(ctx, "UpperHessenbergEigen/residual", worst_res, allow)) bad("residual", worst_res, allow);
    // spectrum as a multiset, without any conditioning assumption: first two power sums against traces (backward-error level)
    CLD s1 = 0, s2 = 0;
    for (int j = 0; j < n; j++) { CLD l((LD) ev[j].real(), (LD) ev[j].imag()); s1 += l; s2 += l * l; }
    const MatLD Hr = toLD(H);
    const LD sc = Hr.cwiseAbs().maxCoeff();
    if (sc > 0)
    {
        const MatLD Hs = Hr / sc;
        const LD t1 = Hs.trace(), t2 = (Hs * Hs).trace(), hs = fnorm(Hs);
        LD e1 = std::abs(s1 / sc - CLD(t1)), e2 = std::abs(s2 / sc / sc - CLD(t2));
        if (!within(ctx, "UpperHessenbergEigen/trace", e1, C * n * n * u * hs)) bad("sum-of-eigenvalues!=trace", e1 * sc, C * n * n * u * hs * sc);
        if (!within(ctx, "UpperHessenbergEigen/trace2", e2, C * n * n * u * hs * hs)) bad("sum-of-squares!=trace(H^2)", e2, C * n * n * u * hs * hs);
    }
}

// ---- iteration-limit clause: "If the iteration limit is hit an exception is thrown; wrong numbers are never returned."
// One object goes through: [an earlier successful compute on another matrix] -> compute(A) under a lowered limit -> accessors -> compute(A) with the
// library's own limit. Judged: a compute() that returns normally hands back exactly what an unlimited fresh object computes (so a run that was cut
// short cannot return normally); a compute() that gives up throws std::runtime_error and nothing else; after it the accessors do not hand back numbers
// (they are the unfinished iterate, or the previous matrix's results); and the object recovers bit for bit.
template <class M>
static bool same_bytes(const M& a, const M& b)
{
    // value comparison (long double carries padding bytes); the reference results are finite, so NaN never compares equal by accident
    return a.rows() == b.rows() && a.cols() == b.cols() && (a.size() == 0 || (a.array() == b.array()).all());
}
struct TriAcc
{
    using Obj = Spectra::TridiagEigen<T>;
    static const char* name() { return "TridiagEigen"; }
    Vec d; Mat Z;
    void read(Obj& o) { d = o.eigenvalues(); Z = o.eigenvectors(); }
    bool same(const TriAcc& b) const { return same_bytes(d, b.d) && same_bytes(Z, b.Z); }
};
struct SchurAcc
{
    using Obj = Spectra::UpperHessenbergSchur<T>;
    static const char* name() { return "UpperHessenbergSchur"; }
    Mat Tm, U;
    void read(Obj& o) { Tm = o.matrix_T(); U = o.matrix_U(); }
    bool same(const SchurAcc& b) const { return same_bytes(Tm, b.Tm) && same_bytes(U, b.U); }
};
struct HessAcc
{
    using Obj = Spectra::UpperHessenbergEigen<T>;
    static const char* name() { return "UpperHessenbergEigen"; }
    CVec ev; CMat X;
    void read(Obj& o) { ev = o.eigenvalues(); X = o.eigenvectors(); }
    bool same(const HessAcc& b) const { return same_bytes(ev, b.ev) && same_bytes(X, b.X); }
};

template <class Acc>
static void limit_scenario(vf::Ctx& ctx, int n, const char* patname, const Mat& A, const Mat& Aprev, bool earlier_life, long limit)
{
    using Obj = typename Acc::Obj;
    const std::string cn = Acc::name();
    auto bad = [&](const char* what, const std::string& extra) {
        ctx.violation(cn + "/iteration-limit/" + what, vf::J().kv("scalar", Name<T>::s()).kv("n", n).kv("pattern", patname).kv("limit", limit).kv("object_had_an_earlier_successful_compute", earlier_life)
                                                           .kv("detail", extra).kv("matrix", mat_str(A)).str());
    };
    Acc fresh;
    bool fresh_ok = true;
    c09lim::limit = -1;
    try { Obj f(A); fresh.read(f); }
    catch (const std::exception&) { fresh_ok = false; }
    if (!fresh_ok) return;   // judged by the main scenario
    Obj o;
    if (earlier_life)
    {
        try { o.compute(Aprev); }
        catch (const std::exception&) { return; }
    }
    c09lim::limit = limit;
    int outcome = 0;   // 0 returned, 1 runtime_error, 2 something else
    std::string what;
    try { o.compute(A); }
    catch (const std::runtime_error& e) { outcome = 1; what = e.what(); }
    catch (const std::exception& e) { outcome = 2; what = e.what(); }
    catch (...) { outcome = 2; what = "not a std::exception"; }
    c09lim::limit = -1;
    if (outcome == 2) { bad("wrong-exception-type", what); return; }
    if (outcome == 0)
    {
        ctx.count("limit/" + cn + "/not-reached");
        Acc got;
        try { got.read(o); }
        catch (const std::exception& e) { bad("accessor-threw-after-successful-compute", e.what()); return; }
        if (!got.same(fresh)) bad("compute-returned-normally-with-other-numbers-than-an-unlimited-run", "");
        return;
    }
    ctx.count("limit/" + cn + "/hit");
    ctx.count("limit/" + cn + (earlier_life ? "/hit-on-reused-object" : "/hit-on-new-object"));
    // after the failed compute: no numbers
    Acc after;
    int acc = 0;
    try { after.read(o); }
    catch (const std::logic_error&) { acc = 1; }
    catch (const std::exception& e) { acc = 2; what = e.what(); }
    if (acc == 0 && !after.same(fresh)) bad("accessors-return-numbers-after-failed-compute", earlier_life ? "object had an earlier successful compute" : "new object");
    if (acc == 2) bad("accessor-wrong-exception-after-failed-compute", what);
    // recovery
    Acc again;
    try { o.compute(A); again.read(o); }
    catch (const std::exception& e) { bad("no-recovery-after-failed-compute", e.what()); return; }
    if (!again.same(fresh)) bad("results-after-recovery-differ-from-fresh-object", "");
}

long vf_ncases(const vf::Ctx& ctx) { return ctx.thorough ? 40000 : 1800; }

void vf_run_case(vf::Ctx& ctx, long idx)
{
    auto& r = ctx.rng;
    const int cls = (int) (idx % 3);
    for (int rep = 0; rep < 5; rep++)
    {
        int n = r.coin(0.5) ? (int) r.range(2, 10) : (int) r.range(11, 64);
        const int pat = (int) r.range(0, 11);
        if (cls != 0 && (pat == 4 || pat == 10) && n > 40) n = (int) r.range(3, 40);
        const char* cn = cls == 0 ? "TridiagEigen" : cls == 1 ? "UpperHessenbergSchur" : "UpperHessenbergEigen";
        Mat A = cls == 0 ? gen_tri(ctx, n, pat) : gen_hess(ctx, n, pat);
        if (cls == 0) check_tridiag(ctx, n, pat, A);
        else if (cls == 1) check_schur(ctx, n, pat, A);
        else check_hesseig(ctx, n, pat, A);
        if (n <= 32 && pat != 7 && pat != 8 && pat != 9)
        {
            // lowered limit: 0, a few sweeps, or around what the matrix needs (a tridiagonal / Hessenberg matrix needs about 2-3 sweeps per eigenvalue)
            const int lk = (int) r.range(0, 3);
            const long limit = lk == 0 ? 0 : lk == 1 ? r.range(1, 4) : r.range(n / 2, 4 * n);
            const bool earlier = r.coin(0.7);
            const int pn = (int) r.range(2, 12);
            Mat Ap = cls == 0 ? gen_tri(ctx, pn, 0) : gen_hess(ctx, pn, 0);
            const char* pname = cls == 0 ? TP[pat] : HP[pat];
            if (cls == 0) limit_scenario<TriAcc>(ctx, n, pname, A, Ap, earlier, limit);
            else if (cls == 1) limit_scenario<SchurAcc>(ctx, n, pname, A, Ap, earlier, limit);
            else limit_scenario<HessAcc>(ctx, n, pname, A, Ap, earlier, limit);
        }
        ctx.count("evals");
        ctx.count(std::string("class/") + cn);
        ctx.count(std::string("pattern/") + (cls == 0 ? TP[pat] : HP[pat]));
        if (pat != 7) ctx.nontriv(std::string(cn) + "/" + std::to_string(n) + "/" + std::to_string(pat) + "/" + std::to_string((LD) A(0, 0)) + "/" + std::to_string((LD) A(n - 1, n - 1)) + "/" + std::to_string((LD) A(1, 0)));
        if (ctx.want_sample && rep == 0) ctx.set_sample(vf::J().kv("class", cn).kv("scalar", Name<T>::s()).kv("n", n).kv("pattern", cls == 0 ? TP[pat] : HP[pat]).kv("matrix", mat_str(A)).str());
    }
}
