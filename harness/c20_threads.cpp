// C20 - solvers are re-entrant: concurrent independent runs are race-free (ThreadSanitizer) and bit-identical to sequential runs.
// One case = one launch of 2..16 threads, each running a random permutation of the task list. One solver group per build.
#define VF_MAIN
#define VF_HAVE_SETUP
#include "common/fachook.hpp"
#include "common/framework.hpp"
#include "common/zoo.hpp"
#include <thread>
#include <atomic>
#include <chrono>
#include <mutex>
#include <sched.h>
#include <unistd.h>
#include <Spectra/DavidsonSymEigsSolver.h>
#include <Spectra/contrib/PartialSVDSolver.h>
#include <Spectra/contrib/LOBPCGSolver.h>

#include "common/libcrng.hpp"

using T = double;
using namespace vz;
const char* vf_driver() { return "c20_threads"; }

struct Task
{
    std::string name;
    std::function<Snapshot(vf::Rng*)> run;   // rng != nullptr: perturb the schedule between operator applications
    Snapshot seq;
};

static void perturb(vf::Rng* rng)
{
    const long x = rng->range(0, 9);
    if (x < 4) sched_yield();
    else if (x < 6) usleep((useconds_t) rng->range(0, 200));
}

// breakdown-prone input: the restart path (expand_basis) runs at different Krylov steps in different tasks
static void few_distinct(vf::Rng& r, Data<T>& d, int k)
{
    const int n = d.n;
    Eigen::MatrixXd A = Eigen::MatrixXd::Zero(n, n);
    for (int i = 0; i < n; i++) A(i, i) = 1.0 + (i % k);
    if (r.coin()) { Eigen::MatrixXd Q = vg::rand_orth(r, n); A = Q * A * Q.transpose(); for (int j = 0; j < n; j++) for (int i = 0; i < j; i++) A(i, j) = A(j, i); }
    if (d.family == 2) d.AH = A.cast<std::complex<T>>();
    else if (d.family == 15) { d.B = A.cast<T>(); d.Bs = d.B.sparseView(); }
    else { d.A = A.cast<T>(); d.As = d.A.sparseView(); }
    d.classname = "few-distinct-eigenvalues";
    if (d.family == 3 || d.family == 4 || d.family == 7 || d.family == 8 || d.family == 14 || d.family == 16) d.sigma = T(0.37);
    if (d.family == 9 || d.family == 10) { d.sigma = T(0.37); d.sigmai = T(0.6); }
}

template <class Fac>
static Task private_task(const Fac& fac, SortRule sel, long maxit)
{
    Task t;
    const Data<T> d = fac.d;   // own copy, immutable afterwards
    t.name = std::string(FSHORT[d.family]) + "/" + d.classname + "/n" + std::to_string(d.n) + "/private-operator";
    t.run = [d, sel, maxit](vf::Rng* rng) {
        Fac f(d);
        auto ops = f.make_ops();
        if (rng) for (auto* c : ops->ctls()) c->between = [rng](long) { perturb(rng); };
        auto es = f.make_solver(*ops);
        es->init();
        const long ret = (long) es->compute(sel, maxit, T(1e-9), f.sort_rules()[0]);
        return snapshot(*es, ret);
    };
    return t;
}

// one shared const product wrapper (library type, no harness state), each thread its own solver
template <class Op, template <class> class Solver, class Mat>
static Task shared_task(const char* name, std::shared_ptr<Mat> mat, std::shared_ptr<Op> op, int nev, int ncv, SortRule sel, long maxit)
{
    Task t;
    t.name = std::string(name) + "/shared-const-operator";
    t.run = [mat, op, nev, ncv, sel, maxit](vf::Rng* rng) {
        Solver<Op> es(*op, nev, ncv);
        es.init();
        if (rng) perturb(rng);
        const long ret = (long) es.compute(sel, maxit, T(1e-9));
        return snapshot(es, ret);
    };
    return t;
}

static std::vector<Task> build_tasks(vf::Ctx& ctx)
{
    auto& r = ctx.rng;
    std::vector<Task> tasks;
    const auto fams = compiled_families();
    for (int f : fams)
        for (int v = 0; v < 2; v++)
        {
            Data<T> d = make_data<T>(r, f, 30, false);
            if (d.n < 8) { d = make_data<T>(r, f, 30, false); }
            if (v == 1) few_distinct(r, d, (int) r.range(2, 4));
            const long maxit = r.pick(std::vector<long>{5, 30, 100});
            with_family<T>(d, [&](auto fac) { tasks.push_back(private_task(fac, r.pick(fac.select_rules()), maxit)); });
        }
#if ZOO_GROUP == 0
    for (int v = 0; v < 2; v++)
    {
        const int n = (int) r.range(12, 40);
        auto A = std::make_shared<Eigen::MatrixXd>(vg::sym_matrix(r, n, v == 0 ? 0 : 2, 1.0));
        auto S = std::make_shared<Eigen::SparseMatrix<double>>(A->sparseView());
        auto opd = std::make_shared<Spectra::DenseSymMatProd<T>>(*A);
        auto ops = std::make_shared<Spectra::SparseSymMatProd<T>>(*S);
        tasks.push_back(shared_task<Spectra::DenseSymMatProd<T>, Spectra::SymEigsSolver>("SymEigsSolver<DenseSymMatProd>", A, opd, 3, 9, SortRule::LargestAlge, 50));
        tasks.push_back(shared_task<Spectra::SparseSymMatProd<T>, Spectra::SymEigsSolver>("SymEigsSolver<SparseSymMatProd>", S, ops, 2, 8, SortRule::BothEnds, 50));
        // the complex Hermitian product wrappers, shared in the same way
        using CT = std::complex<T>;
        auto AH = std::make_shared<Eigen::MatrixXcd>(vg::herm_matrix(r, n, v == 0 ? 0 : 2, 1.0));
        auto SH = std::make_shared<Eigen::SparseMatrix<CT>>(AH->sparseView());
        auto ophd = std::make_shared<Spectra::DenseHermMatProd<CT>>(*AH);
        auto ophs = std::make_shared<Spectra::SparseHermMatProd<CT>>(*SH);
        tasks.push_back(shared_task<Spectra::DenseHermMatProd<CT>, Spectra::HermEigsSolver>("HermEigsSolver<DenseHermMatProd>", AH, ophd, 3, 9, SortRule::LargestMagn, 50));
        tasks.push_back(shared_task<Spectra::SparseHermMatProd<CT>, Spectra::HermEigsSolver>("HermEigsSolver<SparseHermMatProd>", SH, ophs, 2, 8, SortRule::SmallestAlge, 50));
    }
#elif ZOO_GROUP == 1
    for (int v = 0; v < 2; v++)
    {
        const int n = (int) r.range(12, 40);
        auto A = std::make_shared<Eigen::MatrixXd>(vg::gen_matrix(r, n, v == 0 ? 0 : 10, 1.0));
        auto S = std::make_shared<Eigen::SparseMatrix<double>>(A->sparseView());
        auto opd = std::make_shared<Spectra::DenseGenMatProd<T>>(*A);
        auto ops = std::make_shared<Spectra::SparseGenMatProd<T>>(*S);
        tasks.push_back(shared_task<Spectra::DenseGenMatProd<T>, Spectra::GenEigsSolver>("GenEigsSolver<DenseGenMatProd>", A, opd, 3, 10, SortRule::LargestMagn, 50));
        tasks.push_back(shared_task<Spectra::SparseGenMatProd<T>, Spectra::GenEigsSolver>("GenEigsSolver<SparseGenMatProd>", S, ops, 2, 9, SortRule::LargestReal, 50));
    }
#elif ZOO_GROUP == 2
    // the solvers outside the Arnoldi/Lanczos zoo: Davidson (dense and sparse wrapper shared by the threads; generic matrices and matrices with an exactly decoupled
    // coordinate at the wanted end, where a Ritz pair becomes exact and the correction vector is exactly zero), PartialSVDSolver, LOBPCGSolver
    for (int v = 0; v < 3; v++)
    {
        const int n = (int) r.range(20, 50);
        Eigen::MatrixXd M = vg::sym_matrix(r, n, 0, 1.0);
        for (int i = 0; i < n; i++) M(i, i) += 2.0 * i;   // diagonally dominant enough for the DPR correction
        if (v >= 1)
        {
            const int j = (int) r.range(0, n - 1);
            M.row(j).setZero(); M.col(j).setZero(); M(j, j) = v == 1 ? 4.0 * n : -8.0;   // decoupled coordinate holding the largest / smallest eigenvalue
        }
        auto A = std::make_shared<Eigen::MatrixXd>(M);
        auto S = std::make_shared<Eigen::SparseMatrix<double>>(A->sparseView());
        auto opd = std::make_shared<Spectra::DenseSymMatProd<T>>(*A);
        auto ops = std::make_shared<Spectra::SparseSymMatProd<T>>(*S);
        const SortRule sel = v == 2 ? SortRule::SmallestAlge : SortRule::LargestAlge;
        const int nev = (int) r.range(1, 3);
        const char* cls = v == 0 ? "generic" : "decoupled-coordinate";
        auto dav = [&](auto op, const char* nm) {
            Task t;
            t.name = std::string("DavidsonSymEigsSolver<") + nm + ">/" + cls + "/shared-const-operator";
            t.run = [A, S, op, nev, sel](vf::Rng* rng) {
                Spectra::DavidsonSymEigsSolver<typename std::decay<decltype(*op)>::type> es(*op, nev);
                if (rng) perturb(rng);
                const long ret = (long) es.compute(sel, 40, T(1e-9));
                Snapshot sn;
                sn.ret = ret; sn.niter = (long) es.num_iterations(); sn.nops = 0; sn.info = (int) es.info();
                const Eigen::VectorXd ev = es.eigenvalues(); const Eigen::MatrixXd U = es.eigenvectors();
                sn.evals.assign((const unsigned char*) ev.data(), (const unsigned char*) (ev.data() + ev.size()));
                sn.evecs.assign((const unsigned char*) U.data(), (const unsigned char*) (U.data() + U.size()));
                sn.evec_rows = U.rows(); sn.evec_cols = U.cols();
                return sn;
            };
            tasks.push_back(t);
        };
        dav(opd, "DenseSymMatProd");
        dav(ops, "SparseSymMatProd");
    }
    for (int v = 0; v < 3; v++)
    {
        const int m = (int) r.range(15, 45), n = v == 0 ? m + (int) r.range(1, 20) : (v == 1 ? std::max(6, m - (int) r.range(1, 9)) : m);
        Eigen::MatrixXd G = vg::rand_gauss(r, m, n);
        if (v == 2) { Eigen::MatrixXd L = vg::rand_gauss(r, m, 3); G = L * vg::rand_gauss(r, 3, n); }   // rank 3: the Lanczos run behind the SVD breaks down and restarts
        auto A = std::make_shared<Eigen::MatrixXd>(G);
        auto S = std::make_shared<Eigen::SparseMatrix<double>>(A->sparseView());
        const int ncomp = 2, ncv = std::min(std::min(m, n), 7);
        auto svd = [&](auto mat, const char* nm) {
            Task t;
            t.name = std::string("PartialSVDSolver<") + nm + ">/" + (v == 2 ? "rank-3" : (v == 0 ? "wide" : "tall")) + "/own-solver";
            t.run = [mat, ncomp, ncv](vf::Rng* rng) {
                Spectra::PartialSVDSolver<typename std::decay<decltype(*mat)>::type> sv(*mat, ncomp, ncv);
                if (rng) perturb(rng);
                const long ret = (long) sv.compute(200, T(1e-9));
                Snapshot sn;
                sn.ret = ret; sn.niter = 0; sn.nops = 0; sn.info = 0;
                const Eigen::VectorXd sg = sv.singular_values(); const Eigen::MatrixXd U = sv.matrix_U(ncomp), V = sv.matrix_V(ncomp);
                sn.evals.assign((const unsigned char*) sg.data(), (const unsigned char*) (sg.data() + sg.size()));
                sn.evecs.assign((const unsigned char*) U.data(), (const unsigned char*) (U.data() + U.size()));
                sn.evecs.insert(sn.evecs.end(), (const unsigned char*) V.data(), (const unsigned char*) (V.data() + V.size()));
                sn.evec_rows = U.rows() + V.rows(); sn.evec_cols = U.cols();
                return sn;
            };
            tasks.push_back(t);
        };
        svd(A, "MatrixXd");
        svd(S, "SparseMatrix");
    }
    for (int v = 0; v < 2; v++)
    {
        const int n = (int) r.range(30, 60), k = (int) r.range(2, 5);
        Eigen::VectorXd lam(n);
        for (int i = 0; i < n; i++) lam[i] = 1.0 + 0.7 * i;
        Eigen::MatrixXd Q = vg::rand_orth(r, n);
        Eigen::MatrixXd Ad = Q * lam.asDiagonal() * Q.transpose();
        for (int j = 0; j < n; j++) for (int i = 0; i < j; i++) Ad(i, j) = Ad(j, i);
        Eigen::MatrixXd Bd = Eigen::MatrixXd::Identity(n, n);
        if (v == 1) { Eigen::MatrixXd Gb = vg::rand_gauss(r, n, n); Bd = Gb * Gb.transpose() / n + Eigen::MatrixXd::Identity(n, n); }
        auto A = std::make_shared<Eigen::SparseMatrix<double>>(Ad.sparseView());
        auto B = std::make_shared<Eigen::SparseMatrix<double>>(Bd.sparseView());
        auto X = std::make_shared<Eigen::SparseMatrix<double>>(vg::rand_gauss(r, n, k).sparseView());
        Task t;
        t.name = std::string("LOBPCGSolver/") + (v == 1 ? "pencil" : "standard") + "/own-solver";
        t.run = [A, B, X, v](vf::Rng* rng) {
            Spectra::LOBPCGSolver<T> so(*A, *X);
            if (v == 1) so.setB(*B);
            if (rng) perturb(rng);
            so.compute(30, T(1e-8));
            Snapshot sn;
            sn.ret = 0; sn.niter = 0; sn.nops = 0; sn.info = (int) so.info();
            const Eigen::VectorXd ev = so.eigenvalues(); const Eigen::MatrixXd U = so.eigenvectors();
            sn.evals.assign((const unsigned char*) ev.data(), (const unsigned char*) (ev.data() + ev.size()));
            sn.evecs.assign((const unsigned char*) U.data(), (const unsigned char*) (U.data() + U.size()));
            sn.evec_rows = U.rows(); sn.evec_cols = U.cols();
            return sn;
        };
        tasks.push_back(t);
    }
#endif
    return tasks;
}

void vf_setup(vf::Ctx&) { vz::run_prelude<T>(); }

long vf_ncases(const vf::Ctx& ctx) { return ctx.thorough ? 340 : 12; }

void vf_run_case(vf::Ctx& ctx, long idx)
{
    auto& r = ctx.rng;
    std::vector<Task> tasks = build_tasks(ctx);
    // sequential reference (this thread)
    for (auto& t : tasks)
    {
        try { t.seq = t.run(nullptr); }
        catch (const std::exception& e) { t.seq = Snapshot(); t.seq.ret = -99; }
    }
    // digest of the sequential results: must not depend on what ran earlier in this process (runner: this case alone vs. inside the worker's sequence,
    // which starts with a prelude of much larger problems)
    {
        uint64_t h = 1469598103934665603ULL;
        for (auto& t : tasks)
        {
            const long meta[4] = {t.seq.ret, t.seq.niter, t.seq.nops, (long) t.seq.info};
            h = vf::Ctx::fnv_bytes(meta, sizeof meta, h);
            h = vf::Ctx::fnv_bytes(t.seq.evals.data(), t.seq.evals.size(), h);
            h = vf::Ctx::fnv_bytes(t.seq.evecs.data(), t.seq.evecs.size(), h);
        }
        ctx.digest(h);
    }
    const long libc_rng_before = g_libc_rng_calls.load();
    if (libc_rng_before != 0) ctx.violation("library-drew-from-the-process-wide-C-generator/sequential-run", vf::J().kv("calls", libc_rng_before).str());
    const int nthreads = (int) r.range(2, 16);
    const int ntask = (int) tasks.size();
    struct Stamp { int thread, task; std::chrono::steady_clock::time_point a, b; };
    std::vector<std::vector<Stamp>> stamps(nthreads);
    std::vector<std::vector<std::string>> problems(nthreads);
    std::vector<std::vector<int>> orders(nthreads);
    std::vector<uint64_t> seeds(nthreads);
    for (int t = 0; t < nthreads; t++)
    {
        orders[t].resize(ntask);
        for (int i = 0; i < ntask; i++) orders[t][i] = i;
        for (int i = ntask - 1; i > 0; i--) std::swap(orders[t][i], orders[t][(size_t) r.range(0, i)]);
        seeds[t] = r.next();
    }
    std::atomic<int> ready{0};
    std::vector<std::thread> th;
    for (int t = 0; t < nthreads; t++)
        th.emplace_back([&, t]() {
            vf::Rng rng(seeds[t]);
            ready++;
            while (ready.load() < nthreads) sched_yield();   // start together
            usleep((useconds_t) rng.range(0, 300));
            for (int i : orders[t])
            {
                Stamp s{t, i, std::chrono::steady_clock::now(), {}};
                Snapshot got;
                try { got = tasks[i].run(&rng); }
                catch (const std::exception&) { got.ret = -99; }
                s.b = std::chrono::steady_clock::now();
                stamps[t].push_back(s);
                if (!(got == tasks[i].seq)) problems[t].push_back(tasks[i].name + ": differs in " + tasks[i].seq.diff(got));
            }
        });
    for (auto& x : th) x.join();
    if (g_libc_rng_calls.load() != libc_rng_before) ctx.violation("library-drew-from-the-process-wide-C-generator/concurrent-run", vf::J().kv("calls", g_libc_rng_calls.load() - libc_rng_before).str());
    ctx.count("libc_rng_monitor_checks");
    // overlap accounting: pairs of task executions in different threads whose intervals intersect; same-task overlaps separately
    long overlaps = 0, same_task_overlaps = 0, execs = 0;
    for (int a = 0; a < nthreads; a++)
        for (int b = a + 1; b < nthreads; b++)
            for (auto& x : stamps[a])
                for (auto& y : stamps[b])
                    if (x.a < y.b && y.a < x.b) { overlaps++; if (x.task == y.task) same_task_overlaps++; }
    for (int t = 0; t < nthreads; t++) execs += (long) stamps[t].size();
    for (int t = 0; t < nthreads; t++)
        for (auto& p : problems[t])
            ctx.violation("concurrent-result-differs-from-sequential/" + p.substr(0, p.find(':')), vf::J().kv("threads", nthreads).kv("thread", t).kv("what", p).str());
    ctx.count("launches");
    ctx.count("threads", nthreads);
    ctx.count("task_executions", execs);
    ctx.count("evals", execs);
    ctx.count("overlapping_cross_thread_pairs", overlaps);
    ctx.count("overlapping_pairs_of_the_same_task", same_task_overlaps);
    std::string perm0;
    for (int i : orders[0]) perm0 += std::to_string(i) + ",";
    if (overlaps > 0) ctx.nontriv("launch/" + std::to_string(nthreads) + "/" + perm0 + std::to_string(idx));
    else ctx.count("launches_without_overlap");
    ctx.set_sample(vf::J().kv("threads", nthreads).kv("tasks", ntask).kv("executions", execs).kv("overlapping_pairs", overlaps).kv("same_task_overlaps", same_task_overlaps).kv("first_thread_order", perm0).kv("first_task", tasks[0].name).str());
}
