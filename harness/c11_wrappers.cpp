// C11 - every built-in matrix-operation wrapper computes the operation it documents, in every template configuration, and reads only the
// triangle it is told to read. Everything except the two-matrix SymShiftInvert (c11_ssi.cpp). One scalar type per build (-DC11_T=...).
#define VF_MAIN
#include "common/framework.hpp"
#include "common/oracle.hpp"
#include "common/wrapgen.hpp"
#include <functional>
#include <Spectra/MatOp/DenseGenMatProd.h>
#include <Spectra/MatOp/DenseSymMatProd.h>
#include <Spectra/MatOp/DenseHermMatProd.h>
#include <Spectra/MatOp/SparseGenMatProd.h>
#include <Spectra/MatOp/SparseSymMatProd.h>
#include <Spectra/MatOp/SparseHermMatProd.h>
#include <Spectra/MatOp/DenseSymShiftSolve.h>
#include <Spectra/MatOp/SparseSymShiftSolve.h>
#include <Spectra/MatOp/DenseGenRealShiftSolve.h>
#include <Spectra/MatOp/SparseGenRealShiftSolve.h>
#include <Spectra/MatOp/DenseGenComplexShiftSolve.h>
#include <Spectra/MatOp/SparseGenComplexShiftSolve.h>
#include <Spectra/MatOp/DenseCholesky.h>
#include <Spectra/MatOp/SparseCholesky.h>
#include <Spectra/MatOp/SparseRegularInverse.h>
#include <Spectra/MatOp/SymShiftInvert.h>
#include <Spectra/MatOp/internal/SymGEigsCholeskyOp.h>
#include <Spectra/MatOp/internal/SymGEigsRegInvOp.h>
#include <Spectra/MatOp/internal/SymGEigsShiftInvertOp.h>
#include <Spectra/MatOp/internal/SymGEigsBucklingOp.h>
#include <Spectra/MatOp/internal/SymGEigsCayleyOp.h>

#ifndef C11_T
#define C11_T double
#endif
using T = C11_T;
using CT = std::complex<T>;
using namespace vo;
using namespace vwg;
using Eigen::Lower;
using Eigen::Upper;
using Eigen::ColMajor;
using Eigen::RowMajor;
const char* vf_driver() { return "c11_wrappers"; }
static const LD C = 100;

template <class S> using DMat = Eigen::Matrix<S, Eigen::Dynamic, Eigen::Dynamic>;
template <class S> using DVec = Eigen::Matrix<S, Eigen::Dynamic, 1>;

struct Instance { std::string name; std::function<void(vf::Ctx&, int)> run; };
static std::vector<Instance> g_inst;

static void viol(vf::Ctx& ctx, const std::string& inst, const char* what, int n, LD obs, LD allow)
{
    ctx.violation(inst + "/" + what, vf::J().kv("instance", inst).kv("scalar", Name<T>::s()).kv("n", n).kv("check", what).kv("observed", obs).kv("allowed", allow).str());
}
template <class S> static DVec<S> rvec(vf::Rng& r, int n) { DVec<S> v(n); for (int i = 0; i < n; i++) v[i] = Rnd<S>::g(r); return v; }
template <class S> static LD cond2(const DMat<S>& M)
{
    Eigen::JacobiSVD<Eigen::Matrix<std::complex<double>, Eigen::Dynamic, Eigen::Dynamic>> svd(M.template cast<std::complex<double>>());
    const double s = svd.singularValues()[M.rows() - 1];
    return s > 0 ? (LD) (svd.singularValues()[0] / s) : std::numeric_limits<LD>::infinity();
}

// A wrapper is a function of its matrix (and shift) only: applying it to x again, after it has been applied to something else of a very different
// size, gives the same bits as the first time (no warm start, no cache that leaks into the result).
template <class S, class Fn>
static void stateless_check(vf::Ctx& ctx, const std::string& inst, const char* what, int n, const DVec<S>& x, const DVec<S>& y_first, Fn apply)
{
    using R = typename Eigen::NumTraits<S>::Real;
    DVec<S> big = rvec<S>(ctx.rng, n) * S(R(1e9)), tmp(n), again(n);
    try { apply(big, tmp); apply(x, again); }
    catch (const std::exception&) { viol(ctx, inst, (std::string(what) + "-threw-on-repeat").c_str(), n, 0, 0); return; }
    ctx.count("statelessness_checks");
    // (value comparison: the bytes of a long double include padding that no store defines)
    bool same = true;
    for (int i = 0; i < n; i++) same = same && (again[i] == y_first[i]);
    if (!same) viol(ctx, inst, (std::string(what) + "-depends-on-earlier-calls").c_str(), n, (LD) fnorm(VecCLD((again - y_first).template cast<CLD>())), 0);
}

// ------------------------------------------------------------------------------------------------ products
// MK(poison) builds the presented matrix from the full reference F; the wrapper is constructed on it
template <class S, class Op, class Maker>
static void product_check(vf::Ctx& ctx, const std::string& inst, int n, const DMat<S>& F, Maker mk, bool has_matops, int uplo)
{
    auto& r = ctx.rng;
    const LD u = unit<S>();
    auto P1 = mk(1), P2 = mk(2);
    Op op1(P1), op2(P2);
    if (op1.rows() != n || op1.cols() != n) viol(ctx, inst, "rows/cols", n, (LD) op1.rows(), (LD) n);
    const DVec<S> x = rvec<S>(r, n);
    DVec<S> y1(n), y2(n);
    op1.perform_op(x.data(), y1.data());
    op2.perform_op(x.data(), y2.data());
    ctx.count("applications", 2);
    if (bytes_of(y1) != bytes_of(y2)) viol(ctx, inst, "other-triangle-changes-perform_op", n, 0, 0);
    stateless_check<S>(ctx, inst, "perform_op", n, x, y1, [&](const DVec<S>& in, DVec<S>& out) { op1.perform_op(in.data(), out.data()); });
    const MatCLD FL = F.template cast<CLD>();
    const VecCLD want = FL * x.template cast<CLD>();
    const LD err = fnorm(VecCLD(y1.template cast<CLD>() - want)), allow = C * n * u * fnorm(FL) * fnorm(x.template cast<CLD>());
    if (!within(ctx, "product", err, allow)) viol(ctx, inst, "perform_op-not-A*x", n, err, allow);
    with_presentations(P1, [&](const auto& ref, const char* pres) {
        Op o(ref);
        DVec<S> y(n);
        o.perform_op(x.data(), y.data());
        ctx.count(std::string("presentation/") + pres);
        if (o.rows() != n || o.cols() != n) viol(ctx, inst, (std::string("rows/cols/") + pres).c_str(), n, (LD) o.rows(), (LD) n);
        const LD e = fnorm(VecCLD(y.template cast<CLD>() - want));
        if (!within(ctx, "product", e, allow)) viol(ctx, inst, (std::string("perform_op-not-A*x/") + pres).c_str(), n, e, allow);
    });
    if (has_matops)
    {
        // operator* (matrix-matrix) and operator() are real-scalar members (used by the Davidson solver)
        DMat<S> X(n, 3);
        for (int j = 0; j < 3; j++) X.col(j) = rvec<S>(r, n);
        ctx.count("applications");
    }
    (void) uplo;
}
template <class S, class Op, class PM>
static void matops_check(vf::Ctx& ctx, const std::string& inst, int n, const DMat<S>& F, const PM& P1, const PM& P2, int uplo)
{
    auto& r = ctx.rng;
    const LD u = unit<S>();
    Op op1(P1), op2(P2);
    DMat<S> X(n, 3);
    for (int j = 0; j < 3; j++) X.col(j) = rvec<S>(r, n);
    const DMat<S> Y1 = op1 * X, Y2 = op2 * X;
    if (bytes_of(Y1) != bytes_of(Y2)) viol(ctx, inst, "other-triangle-changes-operator*", n, 0, 0);
    const MatCLD FL = F.template cast<CLD>();
    const LD err = fnorm(MatCLD(Y1.template cast<CLD>() - FL * X.template cast<CLD>())), allow = C * n * u * fnorm(FL) * fnorm(X.template cast<CLD>());
    if (!within(ctx, "product", err, allow)) viol(ctx, inst, "operator*-not-A*X", n, err, allow);
    for (int t = 0; t < 6; t++)
    {
        int i = (int) r.range(0, n - 1), j = (int) r.range(0, n - 1);
        if (uplo == Lower && i < j) std::swap(i, j);
        if (uplo == Upper && i > j) std::swap(i, j);
        if (op1(i, j) != F(i, j)) viol(ctx, inst, "operator()-not-the-stored-entry", n, (LD) std::abs(op1(i, j) - F(i, j)), 0);
    }
    ctx.count("applications", 2);
}

// ------------------------------------------------------------------------------------------------ solves
// residual oracle for y = inv(Fs) x
template <class S>
static void solve_judge(vf::Ctx& ctx, const std::string& inst, const char* what, int n, const MatCLD& Fs, const DVec<S>& x, const DVec<S>& y, LD extra = 1)
{
    const LD u = unit<S>();
    if (!all_finite(y)) { viol(ctx, inst, (std::string(what) + "-non-finite").c_str(), n, 0, 0); return; }
    const VecCLD yl = y.template cast<CLD>();
    const LD err = fnorm(VecCLD(Fs * yl - x.template cast<CLD>())), allow = C * n * u * extra * (fnorm(Fs) * fnorm(yl) + fnorm(x.template cast<CLD>()));
    if (!within(ctx, "solve-residual", err, allow)) viol(ctx, inst, what, n, err, allow);
}

// Ill-conditioned shifted system with an ordinary solution: the shift sits at a relative distance of 1e-5..1e-10 from a (real) eigenvalue of F and the right-hand side is
// (F - sigma I) y0 with y0 of ordinary size.  "Backward-stable accuracy" means ||Fs y - x|| <= c n u (||Fs|| ||y|| + ||x||) WHATEVER the conditioning, and pivoted LU /
// Bunch-Kaufman deliver that; a method that is only accurate relative to cond(Fs) (multiplying by an explicit inverse, a factorization with relaxed pivoting, an iterative
// solve stopped early) leaves a residual ~ u cond ||x||.  With a random right-hand side the solution is dominated by the nearly singular direction, ||y|| ~ ||inv(Fs)|| ||x||,
// and the two kinds cannot be told apart - hence the structured right-hand side.  `solve(sigma, x, y)` builds a fresh wrapper on the plain presentation.
template <class S, class SolveFn>
static void near_eigenvalue_check(vf::Ctx& ctx, const std::string& inst, int n, const DMat<S>& F, bool symmetric, SolveFn&& solve)
{
    auto& r = ctx.rng;
    std::vector<LD> reals;
    LD spread = 0;
    if (symmetric)
    {
        Eigen::SelfAdjointEigenSolver<DMat<S>> es(F);
        for (int i = 0; i < n; i++) reals.push_back((LD) es.eigenvalues()[i]);
        spread = std::max<LD>(std::abs(reals.front()), std::abs(reals.back()));
    }
    else
    {
        Eigen::EigenSolver<DMat<S>> es(F, false);
        for (int i = 0; i < n; i++) { spread = std::max<LD>(spread, std::abs(es.eigenvalues()[i])); if (es.eigenvalues()[i].imag() == 0) reals.push_back((LD) es.eigenvalues()[i].real()); }
    }
    if (reals.empty() || !(spread > 0)) { ctx.count("near_eigenvalue/no-real-eigenvalue"); return; }
    const LD lam = reals[(size_t) r.range(0, (long) reals.size() - 1)];
    const LD digits = -std::log10(unit<S>());   // 7.2 / 16 / 19.3: the distance is chosen so that cond stays below ~0.03/u (beyond that the system is singular to working precision)
    const LD rel = std::pow(10.0L, -(LD) r.range((long) std::ceil(0.3L * digits), (long) std::floor(0.62L * digits))) * (r.coin() ? 1 : -1);
    const S sigma = S(lam + rel * spread);
    MatCLD Fs = F.template cast<CLD>();
    Fs.diagonal().array() -= CLD((LD) sigma);
    const LD kap = cond2<CLD>(Fs);
    if (!(kap < std::min<LD>(1e13L, 0.03L / unit<S>()))) { ctx.count("near_eigenvalue/numerically-singular"); return; }
    const DVec<S> y0 = rvec<S>(r, n);
    const DVec<S> x = (Fs * y0.template cast<CLD>()).real().template cast<S>();
    DVec<S> y(n);
    y.setConstant(nan_of<S>());
    try { solve(sigma, x, y); }
    catch (const std::exception&) { ctx.count("near_eigenvalue/refused"); return; }   // (a factorization that declares the matrix singular is C10's subject)
    ctx.count("near_eigenvalue/solves");
    ctx.count("near_eigenvalue/cond_1e" + std::to_string((int) std::floor(std::log10((double) kap))));
    solve_judge<S>(ctx, inst, "perform_op-not-backward-stable/shift-next-to-an-eigenvalue,rhs=(A-sigma*I)*y0", n, Fs, x, y);
}

// ------------------------------------------------------------------------------------------------ registration of all instances
template <int Uplo, int Flags> static std::string cfg() { return std::string(Uplo == Lower ? "Lower" : "Upper") + "," + (Flags == ColMajor ? "ColMajor" : "RowMajor"); }

template <int Uplo, int Flags>
static void reg_sym_family()
{
    const std::string c = cfg<Uplo, Flags>();
    // --- DenseSymMatProd
    g_inst.push_back({"DenseSymMatProd<" + c + ">", [](vf::Ctx& ctx, int n) {
        auto& r = ctx.rng;
        const DMat<T> F = rand_herm<T>(r, n, 1.0, 0.0);
        using PM = Eigen::Matrix<T, Eigen::Dynamic, Eigen::Dynamic, Flags>;
        using Op = Spectra::DenseSymMatProd<T, Uplo, Flags>;
        const std::string inst = "DenseSymMatProd<" + cfg<Uplo, Flags>() + ">";
        product_check<T, Op>(ctx, inst, n, F, [&](int p) { return dense_from<T, Flags>(F, Uplo, p, r); }, false, Uplo);
        PM P1 = dense_from<T, Flags>(F, Uplo, 1, r), P2 = dense_from<T, Flags>(F, Uplo, 2, r);
        matops_check<T, Op>(ctx, inst, n, F, P1, P2, Uplo);
    }});
    // --- DenseHermMatProd (complex)
    g_inst.push_back({"DenseHermMatProd<" + c + ">", [](vf::Ctx& ctx, int n) {
        auto& r = ctx.rng;
        const DMat<CT> F = rand_herm<CT>(r, n, 1.0, 0.0);
        product_check<CT, Spectra::DenseHermMatProd<CT, Uplo, Flags>>(ctx, "DenseHermMatProd<" + cfg<Uplo, Flags>() + ">", n, F, [&](int p) { return dense_from<CT, Flags>(F, Uplo, p, r); }, false, Uplo);
    }});
    // --- DenseSymShiftSolve
    g_inst.push_back({"DenseSymShiftSolve<" + c + ">", [](vf::Ctx& ctx, int n) {
        auto& r = ctx.rng;
        DMat<T> F = rand_herm<T>(r, n, 1.0, 0.0);
        T sigma = T(r.gauss());
        ctx.count(std::string("shift_class/") + std::to_string(hostile_shift_class<T, T>(r, F, sigma, true)));
        const std::string inst = "DenseSymShiftSolve<" + cfg<Uplo, Flags>() + ">";
        near_eigenvalue_check<T>(ctx, inst, n, F, true, [&](T sg, const DVec<T>& in, DVec<T>& out) {
            auto Pn = dense_from<T, Flags>(F, Uplo, 1, r);
            Spectra::DenseSymShiftSolve<T, Uplo, Flags> o(Pn);
            o.set_shift(sg); o.perform_op(in.data(), out.data());
        });
        MatCLD Fs = F.template cast<CLD>();
        Fs.diagonal().array() -= CLD((LD) sigma);
        if (!(cond2<CLD>(Fs.template cast<CLD>()) < 1e6L)) { ctx.count("skipped_ill_conditioned"); return; }
        auto P1 = dense_from<T, Flags>(F, Uplo, 1, r), P2 = dense_from<T, Flags>(F, Uplo, 2, r);
        Spectra::DenseSymShiftSolve<T, Uplo, Flags> o1(P1), o2(P2);
        o1.set_shift(sigma); o2.set_shift(sigma);
        const DVec<T> x = rvec<T>(r, n);
        DVec<T> y1(n), y2(n);
        o1.perform_op(x.data(), y1.data()); o2.perform_op(x.data(), y2.data());
        if (bytes_of(y1) != bytes_of(y2)) viol(ctx, inst, "other-triangle-changes-perform_op", n, 0, 0);
        stateless_check<T>(ctx, inst, "perform_op", n, x, y1, [&](const DVec<T>& in, DVec<T>& out) { o1.perform_op(in.data(), out.data()); });
        solve_judge<T>(ctx, inst, "perform_op-not-inv(A-sigma*I)*x", n, Fs, x, y1);
        ctx.count("applications", 2);
        with_presentations(P1, [&](const auto& ref, const char* pres) {
            Spectra::DenseSymShiftSolve<T, Uplo, Flags> o(ref);
            o.set_shift(sigma);
            DVec<T> y(n);
            o.perform_op(x.data(), y.data());
            ctx.count(std::string("presentation/") + pres);
            solve_judge<T>(ctx, inst, (std::string("perform_op-not-inv(A-sigma*I)*x/") + pres).c_str(), n, Fs, x, y);
        });
    }});
    // --- DenseCholesky
    g_inst.push_back({"DenseCholesky<" + c + ">", [](vf::Ctx& ctx, int n) {
        auto& r = ctx.rng;
        const DMat<T> F = rand_spd<T>(r, n, 0.6);
        const std::string inst = "DenseCholesky<" + cfg<Uplo, Flags>() + ">";
        auto P1 = dense_from<T, Flags>(F, Uplo, 1, r), P2 = dense_from<T, Flags>(F, Uplo, 2, r);
        Spectra::DenseCholesky<T, Uplo, Flags> o1(P1), o2(P2);
        if (o1.info() != Spectra::CompInfo::Successful) { viol(ctx, inst, "info-not-Successful-for-SPD", n, 0, 0); return; }
        const DVec<T> x = rvec<T>(r, n);
        DVec<T> a1(n), a2(n), b1(n), z(n);
        o1.lower_triangular_solve(x.data(), a1.data()); o2.lower_triangular_solve(x.data(), a2.data());
        if (bytes_of(a1) != bytes_of(a2)) viol(ctx, inst, "other-triangle-changes-lower_triangular_solve", n, 0, 0);
        // inv(L') inv(L) x = inv(B) x : judge the composition by its residual (the factor itself is not exposed)
        o1.upper_triangular_solve(a1.data(), b1.data());
        solve_judge<T>(ctx, inst, "inv(L')inv(L)x-not-inv(B)x", n, F.template cast<CLD>(), x, b1, cond2<T>(F));
        // L is a Cholesky factor: ||inv(L) x||^2 = x' inv(B) x
        const LD q1 = (LD) a1.squaredNorm();
        const VecCLD bx = Eigen::FullPivLU<MatCLD>(F.template cast<CLD>()).solve(VecCLD(x.template cast<CLD>()));
        const LD q2 = std::real(x.template cast<CLD>().dot(bx));
        if (!within(ctx, "cholesky-quadratic-form", std::abs(q1 - q2), C * n * unit<T>() * cond2<T>(F) * std::abs(q2))) viol(ctx, inst, "lower_triangular_solve-not-inv(L)", n, std::abs(q1 - q2), 0);
        ctx.count("applications", 3);
        (void) z;
        with_presentations(P1, [&](const auto& ref, const char* pres) {
            Spectra::DenseCholesky<T, Uplo, Flags> o(ref);
            ctx.count(std::string("presentation/") + pres);
            if (o.info() != Spectra::CompInfo::Successful) { viol(ctx, inst, (std::string("info-not-Successful-for-SPD/") + pres).c_str(), n, 0, 0); return; }
            DVec<T> a(n), b(n);
            o.lower_triangular_solve(x.data(), a.data());
            o.upper_triangular_solve(a.data(), b.data());
            solve_judge<T>(ctx, inst, (std::string("inv(L')inv(L)x-not-inv(B)x/") + pres).c_str(), n, F.template cast<CLD>(), x, b, cond2<T>(F));
        });
    }});
}

template <int Uplo, int Flags, class SI>
static void reg_sparse_sym_family(const char* siname)
{
    const std::string c = cfg<Uplo, Flags>() + "," + siname;
    g_inst.push_back({"SparseSymMatProd<" + c + ">", [c](vf::Ctx& ctx, int n) {
        auto& r = ctx.rng;
        const DMat<T> F = rand_herm<T>(r, n, 0.3, 0.0);
        using Op = Spectra::SparseSymMatProd<T, Uplo, Flags, SI>;
        const std::string inst = "SparseSymMatProd<" + c + ">";
        product_check<T, Op>(ctx, inst, n, F, [&](int p) { return sparse_from<T, Flags, SI>(F, Uplo, p, r); }, false, Uplo);
        auto P1 = sparse_from<T, Flags, SI>(F, Uplo, 1, r), P2 = sparse_from<T, Flags, SI>(F, Uplo, 2, r);
        matops_check<T, Op>(ctx, inst, n, F, P1, P2, Uplo);
        // only the documented triangle stored at all
        auto P3 = sparse_from<T, Flags, SI>(F, Uplo, 3, r);
        Op o3(P3), o1(P1);
        const DVec<T> x = rvec<T>(r, n);
        DVec<T> y1(n), y3(n);
        o1.perform_op(x.data(), y1.data()); o3.perform_op(x.data(), y3.data());
        if (!within(ctx, "product", fnorm(VecCLD((y1 - y3).template cast<CLD>())), C * n * unit<T>() * fnorm(F.template cast<CLD>()) * fnorm(x.template cast<CLD>()))) viol(ctx, inst, "triangle-only-storage-differs", n, 0, 0);
    }});
    g_inst.push_back({"SparseHermMatProd<" + c + ">", [c](vf::Ctx& ctx, int n) {
        auto& r = ctx.rng;
        const DMat<CT> F = rand_herm<CT>(r, n, 0.3, 0.0);
        product_check<CT, Spectra::SparseHermMatProd<CT, Uplo, Flags, SI>>(ctx, "SparseHermMatProd<" + c + ">", n, F, [&](int p) { return sparse_from<CT, Flags, SI>(F, Uplo, p, r); }, false, Uplo);
    }});
    g_inst.push_back({"SparseSymShiftSolve<" + c + ">", [c](vf::Ctx& ctx, int n) {
        auto& r = ctx.rng;
        DMat<T> F = rand_herm<T>(r, n, 0.3, 0.0);
        T sigma = T(r.gauss());
        ctx.count(std::string("shift_class/") + std::to_string(hostile_shift_class<T, T>(r, F, sigma, true)));
        const std::string inst = "SparseSymShiftSolve<" + c + ">";
        near_eigenvalue_check<T>(ctx, inst, n, F, true, [&](T sg, const DVec<T>& in, DVec<T>& out) {
            auto Pn = sparse_from<T, Flags, SI>(F, Uplo, 1, r);
            Spectra::SparseSymShiftSolve<T, Uplo, Flags, SI> o(Pn);
            o.set_shift(sg); o.perform_op(in.data(), out.data());
        });
        MatCLD Fs = F.template cast<CLD>();
        Fs.diagonal().array() -= CLD((LD) sigma);
        if (!(cond2<CLD>(Fs) < 1e6L)) { ctx.count("skipped_ill_conditioned"); return; }
        auto P1 = sparse_from<T, Flags, SI>(F, Uplo, 1, r), P2 = sparse_from<T, Flags, SI>(F, Uplo, 2, r);
        Spectra::SparseSymShiftSolve<T, Uplo, Flags, SI> o1(P1), o2(P2);
        o1.set_shift(sigma); o2.set_shift(sigma);
        const DVec<T> x = rvec<T>(r, n);
        DVec<T> y1(n), y2(n);
        o1.perform_op(x.data(), y1.data()); o2.perform_op(x.data(), y2.data());
        if (bytes_of(y1) != bytes_of(y2)) viol(ctx, inst, "other-triangle-changes-perform_op", n, 0, 0);
        stateless_check<T>(ctx, inst, "perform_op", n, x, y1, [&](const DVec<T>& in, DVec<T>& out) { o1.perform_op(in.data(), out.data()); });
        solve_judge<T>(ctx, inst, "perform_op-not-inv(A-sigma*I)*x", n, Fs, x, y1);
        ctx.count("applications", 2);
        with_presentations(P1, [&](const auto& ref, const char* pres) {
            Spectra::SparseSymShiftSolve<T, Uplo, Flags, SI> o(ref);
            o.set_shift(sigma);
            DVec<T> y(n);
            o.perform_op(x.data(), y.data());
            ctx.count(std::string("presentation/") + pres);
            solve_judge<T>(ctx, inst, (std::string("perform_op-not-inv(A-sigma*I)*x/") + pres).c_str(), n, Fs, x, y);
        });
    }});
    g_inst.push_back({"SparseCholesky<" + c + ">", [c](vf::Ctx& ctx, int n) {
        auto& r = ctx.rng;
        const DMat<T> F = rand_spd<T>(r, n, 0.3);
        const std::string inst = "SparseCholesky<" + c + ">";
        auto P1 = sparse_from<T, Flags, SI>(F, Uplo, 1, r), P2 = sparse_from<T, Flags, SI>(F, Uplo, 2, r);
        Spectra::SparseCholesky<T, Uplo, Flags, SI> o1(P1), o2(P2);
        if (o1.info() != Spectra::CompInfo::Successful) { viol(ctx, inst, "info-not-Successful-for-SPD", n, 0, 0); return; }
        const DVec<T> x = rvec<T>(r, n);
        DVec<T> a1(n), a2(n), b1(n);
        o1.lower_triangular_solve(x.data(), a1.data()); o2.lower_triangular_solve(x.data(), a2.data());
        if (bytes_of(a1) != bytes_of(a2)) viol(ctx, inst, "other-triangle-changes-lower_triangular_solve", n, 0, 0);
        o1.upper_triangular_solve(a1.data(), b1.data());
        solve_judge<T>(ctx, inst, "inv(L')inv(L)x-not-inv(B)x", n, F.template cast<CLD>(), x, b1, cond2<T>(F));
        const LD q1 = (LD) a1.squaredNorm();
        const VecCLD bx = Eigen::FullPivLU<MatCLD>(F.template cast<CLD>()).solve(VecCLD(x.template cast<CLD>()));
        const LD q2 = std::real(x.template cast<CLD>().dot(bx));
        if (!within(ctx, "cholesky-quadratic-form", std::abs(q1 - q2), C * n * unit<T>() * cond2<T>(F) * std::abs(q2))) viol(ctx, inst, "lower_triangular_solve-not-inv(L)", n, std::abs(q1 - q2), 0);
        ctx.count("applications", 3);
        with_presentations(P1, [&](const auto& ref, const char* pres) {
            Spectra::SparseCholesky<T, Uplo, Flags, SI> o(ref);
            ctx.count(std::string("presentation/") + pres);
            if (o.info() != Spectra::CompInfo::Successful) { viol(ctx, inst, (std::string("info-not-Successful-for-SPD/") + pres).c_str(), n, 0, 0); return; }
            DVec<T> a(n), b(n);
            o.lower_triangular_solve(x.data(), a.data());
            o.upper_triangular_solve(a.data(), b.data());
            solve_judge<T>(ctx, inst, (std::string("inv(L')inv(L)x-not-inv(B)x/") + pres).c_str(), n, F.template cast<CLD>(), x, b, cond2<T>(F));
        });
    }});
    g_inst.push_back({"SparseRegularInverse<" + c + ">", [c](vf::Ctx& ctx, int n) {
        auto& r = ctx.rng;
        const DMat<T> F = rand_spd<T>(r, n, 0.3);   // strongly diagonally dominant: condition number O(10), CG converges
        const std::string inst = "SparseRegularInverse<" + c + ">";
        auto P1 = sparse_from<T, Flags, SI>(F, Uplo, 1, r), P2 = sparse_from<T, Flags, SI>(F, Uplo, 2, r);
        Spectra::SparseRegularInverse<T, Uplo, Flags, SI> o1(P1), o2(P2);
        const DVec<T> x = rvec<T>(r, n);
        DVec<T> y1(n), y2(n), s1(n), s2(n);
        o1.perform_op(x.data(), y1.data()); o2.perform_op(x.data(), y2.data());
        if (bytes_of(y1) != bytes_of(y2)) viol(ctx, inst, "other-triangle-changes-perform_op", n, 0, 0);
        const MatCLD FL = F.template cast<CLD>();
        const LD pe = fnorm(VecCLD(y1.template cast<CLD>() - FL * x.template cast<CLD>())), pa = C * n * unit<T>() * fnorm(FL) * fnorm(x.template cast<CLD>());
        if (!within(ctx, "product", pe, pa)) viol(ctx, inst, "perform_op-not-B*x", n, pe, pa);
        bool t1 = false, t2 = false;
        try { o1.solve(x.data(), s1.data()); } catch (const std::runtime_error&) { t1 = true; }
        try { o2.solve(x.data(), s2.data()); } catch (const std::runtime_error&) { t2 = true; }
        ctx.count("applications", 4);
        if (t1 || t2) { viol(ctx, inst, "solve-gave-up-on-well-conditioned-B", n, 0, 0); return; }
        if (bytes_of(s1) != bytes_of(s2)) viol(ctx, inst, "other-triangle-changes-solve", n, 0, 0);
        stateless_check<T>(ctx, inst, "solve", n, x, s1, [&](const DVec<T>& in, DVec<T>& out) { o1.solve(in.data(), out.data()); });
        {
            // a small right-hand side after a huge one: judged by its own residual as well
            DVec<T> hugeb = rvec<T>(r, n) * T(1e9), tmp(n), smallx = x * T(1e-3), smally(n);
            o1.solve(hugeb.data(), tmp.data());
            o1.solve(smallx.data(), smally.data());
            solve_judge<T>(ctx, inst, "solve-not-inv(B)*x/small-after-huge", n, FL, smallx, smally, 10 * cond2<T>(F));
        }
        // iterative solver: residual at the level of its tolerance (eps) times the conditioning
        solve_judge<T>(ctx, inst, "solve-not-inv(B)*x", n, FL, x, s1, 10 * cond2<T>(F));
        with_presentations(P1, [&](const auto& ref, const char* pres) {
            Spectra::SparseRegularInverse<T, Uplo, Flags, SI> o(ref);
            ctx.count(std::string("presentation/") + pres);
            DVec<T> y(n), sv(n);
            o.perform_op(x.data(), y.data());
            const LD e = fnorm(VecCLD(y.template cast<CLD>() - FL * x.template cast<CLD>()));
            if (!within(ctx, "product", e, pa)) viol(ctx, inst, (std::string("perform_op-not-B*x/") + pres).c_str(), n, e, pa);
            try { o.solve(x.data(), sv.data()); } catch (const std::runtime_error&) { viol(ctx, inst, (std::string("solve-gave-up-on-well-conditioned-B/") + pres).c_str(), n, 0, 0); return; }
            solve_judge<T>(ctx, inst, (std::string("solve-not-inv(B)*x/") + pres).c_str(), n, FL, x, sv, 10 * cond2<T>(F));
        });
    }});
}

template <int Flags>
static void reg_gen_family()
{
    const std::string c = Flags == ColMajor ? "ColMajor" : "RowMajor";
    g_inst.push_back({"DenseGenMatProd<" + c + ">", [c](vf::Ctx& ctx, int n) {
        auto& r = ctx.rng;
        const DMat<T> F = rand_full<T>(r, n, 1.0);
        using Op = Spectra::DenseGenMatProd<T, Flags>;
        const std::string inst = "DenseGenMatProd<" + c + ">";
        product_check<T, Op>(ctx, inst, n, F, [&](int p) { return dense_from<T, Flags>(F, 0, p, r); }, false, 0);
        auto P = dense_from<T, Flags>(F, 0, 0, r);
        matops_check<T, Op>(ctx, inst, n, F, P, P, 0);
    }});
    g_inst.push_back({"DenseGenRealShiftSolve<" + c + ">", [c](vf::Ctx& ctx, int n) {
        auto& r = ctx.rng;
        DMat<T> F = rand_full<T>(r, n, 1.0);
        T sigma = T(r.gauss());
        ctx.count(std::string("shift_class/") + std::to_string(hostile_shift_class<T, T>(r, F, sigma, false)));
        const std::string inst = "DenseGenRealShiftSolve<" + c + ">";
        near_eigenvalue_check<T>(ctx, inst, n, F, false, [&](T sg, const DVec<T>& in, DVec<T>& out) {
            auto Pn = dense_from<T, Flags>(F, 0, 0, r);
            Spectra::DenseGenRealShiftSolve<T, Flags> o(Pn);
            o.set_shift(sg); o.perform_op(in.data(), out.data());
        });
        MatCLD Fs = F.template cast<CLD>();
        Fs.diagonal().array() -= CLD((LD) sigma);
        if (!(cond2<CLD>(Fs) < 1e6L)) { ctx.count("skipped_ill_conditioned"); return; }
        auto P = dense_from<T, Flags>(F, 0, 0, r);
        Spectra::DenseGenRealShiftSolve<T, Flags> op(P);
        op.set_shift(sigma);
        const DVec<T> x = rvec<T>(r, n);
        DVec<T> y(n);
        op.perform_op(x.data(), y.data());
        stateless_check<T>(ctx, inst, "perform_op", n, x, y, [&](const DVec<T>& in, DVec<T>& out) { op.perform_op(in.data(), out.data()); });
        solve_judge<T>(ctx, inst, "perform_op-not-inv(A-sigma*I)*x", n, Fs, x, y);
        ctx.count("applications");
        with_presentations(P, [&](const auto& ref, const char* pres) {
            Spectra::DenseGenRealShiftSolve<T, Flags> o(ref);
            o.set_shift(sigma);
            DVec<T> yp(n);
            o.perform_op(x.data(), yp.data());
            ctx.count(std::string("presentation/") + pres);
            solve_judge<T>(ctx, inst, (std::string("perform_op-not-inv(A-sigma*I)*x/") + pres).c_str(), n, Fs, x, yp);
        });
    }});
    g_inst.push_back({"DenseGenComplexShiftSolve<" + c + ">", [c](vf::Ctx& ctx, int n) {
        auto& r = ctx.rng;
        DMat<T> F = rand_full<T>(r, n, 1.0);
        T sr = T(r.gauss());
        const T si = T(0.3 + r.uni());
        ctx.count(std::string("shift_class/") + std::to_string(hostile_shift_class<T, T>(r, F, sr, false)));
        const std::string inst = "DenseGenComplexShiftSolve<" + c + ">";
        MatCLD Fs = F.template cast<CLD>();
        Fs.diagonal().array() -= CLD((LD) sr, (LD) si);
        const LD kap = cond2<CLD>(Fs);
        if (!(kap < 1e6L)) { ctx.count("skipped_ill_conditioned"); return; }
        auto P = dense_from<T, Flags>(F, 0, 0, r);
        Spectra::DenseGenComplexShiftSolve<T, Flags> op(P);
        op.set_shift(sr, si);
        const DVec<T> x = rvec<T>(r, n);
        DVec<T> y(n);
        op.perform_op(x.data(), y.data());
        stateless_check<T>(ctx, inst, "perform_op", n, x, y, [&](const DVec<T>& in, DVec<T>& out) { op.perform_op(in.data(), out.data()); });
        // y = Re[inv(A - sigma I) x]: forward comparison with an extended-precision solve (a residual test cannot see the imaginary part)
        const VecCLD z = Eigen::FullPivLU<MatCLD>(Fs).solve(VecCLD(x.template cast<CLD>()));
        const LD err = fnorm(VecCLD(y.template cast<CLD>() - VecCLD(z.real().template cast<CLD>()))), allow = C * n * unit<T>() * kap * fnorm(z);
        if (!within(ctx, "complex-shift-forward", err, allow)) viol(ctx, inst, "perform_op-not-Re[inv(A-sigma*I)*x]", n, err, allow);
        ctx.count("applications");
        with_presentations(P, [&](const auto& ref, const char* pres) {
            Spectra::DenseGenComplexShiftSolve<T, Flags> o(ref);
            o.set_shift(sr, si);
            DVec<T> yp(n);
            o.perform_op(x.data(), yp.data());
            ctx.count(std::string("presentation/") + pres);
            const LD e = fnorm(VecCLD(yp.template cast<CLD>() - VecCLD(z.real().template cast<CLD>())));
            if (!within(ctx, "complex-shift-forward", e, allow)) viol(ctx, inst, (std::string("perform_op-not-Re[inv(A-sigma*I)*x]/") + pres).c_str(), n, e, allow);
        });
    }});
}
template <int Flags, class SI>
static void reg_sparse_gen_family(const char* siname)
{
    const std::string c = std::string(Flags == ColMajor ? "ColMajor" : "RowMajor") + "," + siname;
    g_inst.push_back({"SparseGenMatProd<" + c + ">", [c](vf::Ctx& ctx, int n) {
        auto& r = ctx.rng;
        const DMat<T> F = rand_full<T>(r, n, 0.3);
        using Op = Spectra::SparseGenMatProd<T, Flags, SI>;
        const std::string inst = "SparseGenMatProd<" + c + ">";
        product_check<T, Op>(ctx, inst, n, F, [&](int p) { return sparse_from<T, Flags, SI>(F, 0, p, r); }, false, 0);
        auto P = sparse_from<T, Flags, SI>(F, 0, 0, r);
        matops_check<T, Op>(ctx, inst, n, F, P, P, 0);
    }});
    g_inst.push_back({"SparseGenRealShiftSolve<" + c + ">", [c](vf::Ctx& ctx, int n) {
        auto& r = ctx.rng;
        DMat<T> F = rand_full<T>(r, n, 0.3);
        T sigma = T(r.gauss());
        ctx.count(std::string("shift_class/") + std::to_string(hostile_shift_class<T, T>(r, F, sigma, false)));
        const std::string inst = "SparseGenRealShiftSolve<" + c + ">";
        near_eigenvalue_check<T>(ctx, inst, n, F, false, [&](T sg, const DVec<T>& in, DVec<T>& out) {
            auto Pn = sparse_from<T, Flags, SI>(F, 0, 0, r);
            Spectra::SparseGenRealShiftSolve<T, Flags, SI> o(Pn);
            o.set_shift(sg); o.perform_op(in.data(), out.data());
        });
        MatCLD Fs = F.template cast<CLD>();
        Fs.diagonal().array() -= CLD((LD) sigma);
        if (!(cond2<CLD>(Fs) < 1e6L)) { ctx.count("skipped_ill_conditioned"); return; }
        auto P = sparse_from<T, Flags, SI>(F, 0, 0, r);
        Spectra::SparseGenRealShiftSolve<T, Flags, SI> op(P);
        op.set_shift(sigma);
        const DVec<T> x = rvec<T>(r, n);
        DVec<T> y(n);
        op.perform_op(x.data(), y.data());
        stateless_check<T>(ctx, inst, "perform_op", n, x, y, [&](const DVec<T>& in, DVec<T>& out) { op.perform_op(in.data(), out.data()); });
        solve_judge<T>(ctx, inst, "perform_op-not-inv(A-sigma*I)*x", n, Fs, x, y);
        ctx.count("applications");
        with_presentations(P, [&](const auto& ref, const char* pres) {
            Spectra::SparseGenRealShiftSolve<T, Flags, SI> o(ref);
            o.set_shift(sigma);
            DVec<T> yp(n);
            o.perform_op(x.data(), yp.data());
            ctx.count(std::string("presentation/") + pres);
            solve_judge<T>(ctx, inst, (std::string("perform_op-not-inv(A-sigma*I)*x/") + pres).c_str(), n, Fs, x, yp);
        });
    }});
    g_inst.push_back({"SparseGenComplexShiftSolve<" + c + ">", [c](vf::Ctx& ctx, int n) {
        auto& r = ctx.rng;
        DMat<T> F = rand_full<T>(r, n, 0.3);
        T sr = T(r.gauss());
        const T si = T(0.3 + r.uni());
        ctx.count(std::string("shift_class/") + std::to_string(hostile_shift_class<T, T>(r, F, sr, false)));
        const std::string inst = "SparseGenComplexShiftSolve<" + c + ">";
        MatCLD Fs = F.template cast<CLD>();
        Fs.diagonal().array() -= CLD((LD) sr, (LD) si);
        const LD kap = cond2<CLD>(Fs);
        if (!(kap < 1e6L)) { ctx.count("skipped_ill_conditioned"); return; }
        auto P = sparse_from<T, Flags, SI>(F, 0, 0, r);
        Spectra::SparseGenComplexShiftSolve<T, Flags, SI> op(P);
        op.set_shift(sr, si);
        const DVec<T> x = rvec<T>(r, n);
        DVec<T> y(n);
        op.perform_op(x.data(), y.data());
        stateless_check<T>(ctx, inst, "perform_op", n, x, y, [&](const DVec<T>& in, DVec<T>& out) { op.perform_op(in.data(), out.data()); });
        const VecCLD z = Eigen::FullPivLU<MatCLD>(Fs).solve(VecCLD(x.template cast<CLD>()));
        const LD err = fnorm(VecCLD(y.template cast<CLD>() - VecCLD(z.real().template cast<CLD>()))), allow = C * n * unit<T>() * kap * fnorm(z);
        if (!within(ctx, "complex-shift-forward", err, allow)) viol(ctx, inst, "perform_op-not-Re[inv(A-sigma*I)*x]", n, err, allow);
        ctx.count("applications");
        with_presentations(P, [&](const auto& ref, const char* pres) {
            Spectra::SparseGenComplexShiftSolve<T, Flags, SI> o(ref);
            o.set_shift(sr, si);
            DVec<T> yp(n);
            o.perform_op(x.data(), yp.data());
            ctx.count(std::string("presentation/") + pres);
            const LD e = fnorm(VecCLD(yp.template cast<CLD>() - VecCLD(z.real().template cast<CLD>())));
            if (!within(ctx, "complex-shift-forward", e, allow)) viol(ctx, inst, (std::string("perform_op-not-Re[inv(A-sigma*I)*x]/") + pres).c_str(), n, e, allow);
        });
    }});
}

// composite operators the generalized solvers build: compared with the explicitly formed dense operator
static void reg_composites()
{
    g_inst.push_back({"SymGEigsCholeskyOp<DenseSymMatProd,DenseCholesky>", [](vf::Ctx& ctx, int n) {
        auto& r = ctx.rng;
        const DMat<T> A = rand_herm<T>(r, n, 1.0, 0.0), B = rand_spd<T>(r, n, 0.6);
        Spectra::DenseSymMatProd<T> op(A); Spectra::DenseCholesky<T> bop(B);
        Spectra::SymGEigsCholeskyOp<Spectra::DenseSymMatProd<T>, Spectra::DenseCholesky<T>> comp(op, bop);
        const DVec<T> x = rvec<T>(r, n); DVec<T> y(n);
        comp.perform_op(x.data(), y.data());
        // inv(L) A inv(L') with L from an extended-precision Cholesky of the same B
        Eigen::LLT<MatLD> llt(MatLD(B.template cast<LD>()));
        const MatLD L = llt.matrixL();
        const MatLD Li = L.inverse();
        const VecLD want = Li * (A.template cast<LD>() * (Li.transpose() * x.template cast<LD>()));
        const LD kb = cond2<T>(B);
        const LD err = (y.template cast<LD>() - want).norm(), allow = C * n * unit<T>() * kb * Li.norm() * Li.norm() * fnorm(A.template cast<CLD>()) * x.template cast<LD>().norm();
        if (!within(ctx, "composite", err, allow)) viol(ctx, "SymGEigsCholeskyOp", "not-inv(L)*A*inv(L')*x", n, err, allow);
        ctx.count("applications");
    }});
    g_inst.push_back({"SymGEigsRegInvOp<SparseSymMatProd,SparseRegularInverse>", [](vf::Ctx& ctx, int n) {
        auto& r = ctx.rng;
        const DMat<T> A = rand_herm<T>(r, n, 0.4, 0.0), B = rand_spd<T>(r, n, 0.3);
        Eigen::SparseMatrix<T> As = sparse_from<T, ColMajor, int>(A, Lower, 3, r), Bs = sparse_from<T, ColMajor, int>(B, Lower, 3, r);
        Spectra::SparseSymMatProd<T> op(As); Spectra::SparseRegularInverse<T> bop(Bs);
        Spectra::SymGEigsRegInvOp<Spectra::SparseSymMatProd<T>, Spectra::SparseRegularInverse<T>> comp(op, bop);
        const DVec<T> x = rvec<T>(r, n); DVec<T> y(n);
        comp.perform_op(x.data(), y.data());
        const VecCLD want = Eigen::FullPivLU<MatCLD>(B.template cast<CLD>()).solve(VecCLD(A.template cast<CLD>() * x.template cast<CLD>()));
        const LD err = fnorm(VecCLD(y.template cast<CLD>() - want)), allow = C * n * unit<T>() * 10 * cond2<T>(B) * fnorm(want);
        if (!within(ctx, "composite", err, allow)) viol(ctx, "SymGEigsRegInvOp", "not-inv(B)*A*x", n, err, allow);
        ctx.count("applications");
    }});
    // the three shift operators over SymShiftInvert
    for (int mode = 0; mode < 3; mode++)
        g_inst.push_back({std::string(mode == 0 ? "SymGEigsShiftInvertOp" : mode == 1 ? "SymGEigsBucklingOp" : "SymGEigsCayleyOp") + "<SymShiftInvert<Dense,Sparse>,..>", [mode](vf::Ctx& ctx, int n) {
            auto& r = ctx.rng;
            const DMat<T> A = mode == 1 ? rand_spd<T>(r, n, 0.6) : rand_herm<T>(r, n, 1.0, 0.0);
            const DMat<T> B = mode == 1 ? rand_herm<T>(r, n, 0.4, 0.0) : rand_spd<T>(r, n, 0.3);
            const T sigma = T(0.3 + r.uni()) * T(r.coin() ? 1 : -1);
            MatCLD Fs = A.template cast<CLD>() - CLD((LD) sigma) * B.template cast<CLD>();
            const LD kap = cond2<CLD>(Fs);
            if (!(kap < 1e6L)) { ctx.count("skipped_ill_conditioned"); return; }
            Eigen::SparseMatrix<T> Bs = sparse_from<T, ColMajor, int>(B, Lower, 3, r);
            DMat<T> Ad = dense_from<T, ColMajor>(A, Lower, 1, r);
            using SSI = Spectra::SymShiftInvert<T, Eigen::Dense, Eigen::Sparse>;
            SSI op(Ad, Bs);
            const DVec<T> x = rvec<T>(r, n); DVec<T> y(n);
            VecCLD want;
            const char* nm;
            if (mode == 0)
            {
                Spectra::SparseSymMatProd<T> bop(Bs);
                Spectra::SymGEigsShiftInvertOp<SSI, Spectra::SparseSymMatProd<T>> comp(op, bop);
                comp.set_shift(sigma); comp.perform_op(x.data(), y.data());
                want = Eigen::FullPivLU<MatCLD>(Fs).solve(VecCLD(B.template cast<CLD>() * x.template cast<CLD>()));
                nm = "not-inv(A-sigma*B)*B*x";
            }
            else if (mode == 1)
            {
                // buckling: inv(K - sigma K_G) K x ; the B-operator handed to the composite is the product with K
                DMat<T> Kd = dense_from<T, ColMajor>(A, Lower, 1, r);
                Spectra::DenseSymMatProd<T> kop(Kd);
                Spectra::SymGEigsBucklingOp<SSI, Spectra::DenseSymMatProd<T>> comp(op, kop);
                comp.set_shift(sigma); comp.perform_op(x.data(), y.data());
                want = Eigen::FullPivLU<MatCLD>(Fs).solve(VecCLD(A.template cast<CLD>() * x.template cast<CLD>()));
                nm = "not-inv(K-sigma*K_G)*K*x";
            }
            else
            {
                Spectra::SparseSymMatProd<T> bop(Bs);
                Spectra::SymGEigsCayleyOp<SSI, Spectra::SparseSymMatProd<T>> comp(op, bop);
                comp.set_shift(sigma); comp.perform_op(x.data(), y.data());
                want = Eigen::FullPivLU<MatCLD>(Fs).solve(VecCLD((A.template cast<CLD>() + CLD((LD) sigma) * B.template cast<CLD>()) * x.template cast<CLD>()));
                nm = "not-inv(A-sigma*B)*(A+sigma*B)*x";
            }
            const LD err = fnorm(VecCLD(y.template cast<CLD>() - want)), allow = C * n * unit<T>() * kap * (fnorm(want) + fnorm(x.template cast<CLD>()));
            if (!within(ctx, "composite", err, allow)) viol(ctx, mode == 0 ? "SymGEigsShiftInvertOp" : mode == 1 ? "SymGEigsBucklingOp" : "SymGEigsCayleyOp", nm, n, err, allow);
            ctx.count("applications");
        }});
}

static void build_registry()
{
    if (!g_inst.empty()) return;
    reg_sym_family<Lower, ColMajor>(); reg_sym_family<Upper, ColMajor>(); reg_sym_family<Lower, RowMajor>(); reg_sym_family<Upper, RowMajor>();
    reg_sparse_sym_family<Lower, ColMajor, int>("int"); reg_sparse_sym_family<Upper, ColMajor, int>("int");
    reg_sparse_sym_family<Lower, RowMajor, int>("int"); reg_sparse_sym_family<Upper, RowMajor, int>("int");
    reg_sparse_sym_family<Lower, ColMajor, long>("long"); reg_sparse_sym_family<Upper, RowMajor, long>("long");
    reg_gen_family<ColMajor>(); reg_gen_family<RowMajor>();
    reg_sparse_gen_family<ColMajor, int>("int"); reg_sparse_gen_family<RowMajor, int>("int"); reg_sparse_gen_family<ColMajor, long>("long");
    reg_composites();
}

long vf_ncases(const vf::Ctx& ctx) { build_registry(); return (long) g_inst.size() * (ctx.thorough ? 60 : 8); }

void vf_run_case(vf::Ctx& ctx, long idx)
{
    build_registry();
    const Instance& in = g_inst[(size_t) (idx % (long) g_inst.size())];
    const long rep = idx / (long) g_inst.size();
    const int n = rep == 0 ? 1 : (rep == 1 ? 2 : (int) ctx.rng.range(3, ctx.thorough ? 60 : 30));
    in.run(ctx, n);
    ctx.count("evals");
    ctx.count("instance/" + in.name);
    if (n >= 2) ctx.nontriv(in.name + "/" + std::to_string(n) + "/" + std::to_string(idx));
    if (ctx.want_sample) ctx.set_sample(vf::J().kv("instance", in.name).kv("scalar", Name<T>::s()).kv("n", n).str());
}
