// C11 (part 2) - SymShiftInvert in all 64 combinations of {dense,sparse}^2 x {Lower,Upper}^2 x {ColMajor,RowMajor}^2 (+ long storage index on a subset).
#define VF_MAIN
#include "common/framework.hpp"
#include "common/oracle.hpp"
#include "common/wrapgen.hpp"
#include <Spectra/MatOp/SymShiftInvert.h>

#ifndef C11_T
#define C11_T double
#endif
using T = C11_T;
using namespace vo;
using namespace vwg;
using Eigen::Lower;
using Eigen::Upper;
using Eigen::ColMajor;
using Eigen::RowMajor;
const char* vf_driver() { return "c11_ssi"; }
static const LD C = 100;
template <class S> using DMat = Eigen::Matrix<S, Eigen::Dynamic, Eigen::Dynamic>;
template <class S> using DVec = Eigen::Matrix<S, Eigen::Dynamic, 1>;

template <bool Sp, int Flags, class SI> struct Present;
template <int Flags, class SI> struct Present<false, Flags, SI>
{
    using Type = Eigen::Matrix<T, Eigen::Dynamic, Eigen::Dynamic, Flags>;
    static Type make(const DMat<T>& F, int uplo, int poison, vf::Rng& r) { return dense_from<T, Flags>(F, uplo, poison, r); }
};
template <int Flags, class SI> struct Present<true, Flags, SI>
{
    using Type = Eigen::SparseMatrix<T, Flags, SI>;
    static Type make(const DMat<T>& F, int uplo, int poison, vf::Rng& r) { return sparse_from<T, Flags, SI>(F, uplo, poison, r); }
};

template <bool ASp, bool BSp, int UA, int UB, int FA, int FB, class SI>
static void run_combo(vf::Ctx& ctx, int n, const std::string& name)
{
    auto& r = ctx.rng;
    DMat<T> A = rand_herm<T>(r, n, ASp ? 0.35 : 1.0, 0.0);
    bool bspd = r.coin(0.7);
    DMat<T> B = bspd ? rand_spd<T>(r, n, BSp ? 0.3 : 0.8) : rand_herm<T>(r, n, BSp ? 0.35 : 1.0, 0.0);
    T sigma = T(0.3 + r.uni()) * T(r.coin() ? 1 : -1);
    // inputs on which elimination without pivoting fails (tiny shifted diagonal next to O(1) couplings): B = I so that A - sigma B has that structure
    {
        T s2 = sigma;
        DMat<T> A2 = A;
        const int hc = hostile_shift_class<T, T>(r, A2, s2, true);
        ctx.count("shift_class/" + std::to_string(hc));
        if (hc != 0) { A = A2; sigma = s2; B = DMat<T>::Identity(n, n); bspd = true; }
    }
    using PA = Present<ASp, FA, SI>;
    using PB = Present<BSp, FB, SI>;
    using Op = Spectra::SymShiftInvert<T, typename std::conditional<ASp, Eigen::Sparse, Eigen::Dense>::type, typename std::conditional<BSp, Eigen::Sparse, Eigen::Dense>::type, UA, UB, FA, FB, SI, SI>;
    // Ill-conditioned pencil shift with an ordinary solution: sigma at a relative distance of 10^-(0.3..0.62 digits) from a generalized eigenvalue of (A, B) (B definite, so
    // they are real), right-hand side (A - sigma B) y0.  Backward-stable accuracy holds whatever the conditioning; a solve that is only accurate relative to cond (explicit
    // inverse, relaxed pivoting) leaves a residual ~ u cond ||x||, which a random right-hand side - whose solution is dominated by the nearly singular direction - cannot show.
    if (bspd && n >= 2)
    {
        Eigen::GeneralizedSelfAdjointEigenSolver<DMat<T>> ges(A, B, Eigen::EigenvaluesOnly);
        if (ges.info() == Eigen::Success)
        {
            const LD spread = std::max<LD>(std::abs((LD) ges.eigenvalues()[0]), std::abs((LD) ges.eigenvalues()[n - 1]));
            const LD lam = (LD) ges.eigenvalues()[(int) r.range(0, n - 1)];
            const LD digits = -std::log10(unit<T>());
            const T sg = T(lam + spread * std::pow(10.0L, -(LD) r.range((long) std::ceil(0.3L * digits), (long) std::floor(0.62L * digits))) * (r.coin() ? 1 : -1));
            const MatCLD Fn = A.template cast<CLD>() - CLD((LD) sg) * B.template cast<CLD>();
            Eigen::JacobiSVD<Eigen::MatrixXcd> sv(Fn.template cast<std::complex<double>>());
            const LD kn = (LD) (sv.singularValues()[0] / sv.singularValues()[n - 1]);
            if (sg != T(0) && kn < std::min<LD>(1e13L, 0.03L / unit<T>()))
            {
                DVec<T> y0(n), yn(n);
                for (int i = 0; i < n; i++) y0[i] = Rnd<T>::g(r);
                const DVec<T> xn = (Fn * y0.template cast<CLD>()).real().template cast<T>();
                bool refused = false;
                try { const typename PA::Type An = PA::make(A, UA, 1, r); const typename PB::Type Bn = PB::make(B, UB, 1, r); Op o(An, Bn); o.set_shift(sg); o.perform_op(xn.data(), yn.data()); }
                catch (const std::invalid_argument&) { refused = true; ctx.count("near_eigenvalue/refused"); }
                if (!refused)
                {
                    ctx.count("near_eigenvalue/solves");
                    ctx.count("near_eigenvalue/cond_1e" + std::to_string((int) std::floor(std::log10((double) kn))));
                    const VecCLD yl = yn.template cast<CLD>();
                    const LD e = fnorm(VecCLD(Fn * yl - xn.template cast<CLD>())), al = C * n * unit<T>() * (fnorm(Fn) * fnorm(yl) + fnorm(xn.template cast<CLD>()));
                    if (!all_finite(yn) || !within(ctx, "solve-residual/near-eigenvalue", e, al))
                        ctx.violation("SymShiftInvert<" + name + ">/perform_op-not-backward-stable/shift-next-to-an-eigenvalue,rhs=(A-sigma*B)*y0",
                                      vf::J().kv("instance", name).kv("scalar", Name<T>::s()).kv("n", n).kv("sigma", (LD) sg).kv("cond", kn).kv("observed", e).kv("allowed", al).str());
                }
            }
            else ctx.count("near_eigenvalue/numerically-singular");
        }
    }
    const MatCLD Fs = A.template cast<CLD>() - CLD((LD) sigma) * B.template cast<CLD>();
    Eigen::JacobiSVD<Eigen::MatrixXcd> svd(Fs.template cast<std::complex<double>>());
    const LD kap = (LD) (svd.singularValues()[0] / svd.singularValues()[n - 1]);
    if (!(kap < 1e6L)) { ctx.count("skipped_ill_conditioned"); return; }
    auto bad = [&](const char* what, LD obs, LD allow) {
        ctx.violation("SymShiftInvert<" + name + ">/" + what, vf::J().kv("instance", name).kv("scalar", Name<T>::s()).kv("n", n).kv("sigma", (LD) sigma).kv("check", what).kv("observed", obs).kv("allowed", allow).str());
    };
    const typename PA::Type A1 = PA::make(A, UA, 1, r), A2 = PA::make(A, UA, 2, r);
    const typename PB::Type B1 = PB::make(B, UB, 1, r), B2 = PB::make(B, UB, 2, r);
    const DVec<T> x = [&]() { DVec<T> v(n); for (int i = 0; i < n; i++) v[i] = Rnd<T>::g(r); return v; }();
    DVec<T> y1(n), y2(n);
    try
    {
        Op o1(A1, B1), o2(A2, B2);
        if (o1.rows() != n || o1.cols() != n) bad("rows/cols", (LD) o1.rows(), (LD) n);
        o1.set_shift(sigma); o2.set_shift(sigma);
        o1.perform_op(x.data(), y1.data()); o2.perform_op(x.data(), y2.data());
        // a second shift on the same object: the factorization must follow
        const T s2 = sigma * T(0.5);
        o1.set_shift(s2);
        DVec<T> y3(n);
        o1.perform_op(x.data(), y3.data());
        const MatCLD F2 = A.template cast<CLD>() - CLD((LD) s2) * B.template cast<CLD>();
        Eigen::JacobiSVD<Eigen::MatrixXcd> svd2(F2.template cast<std::complex<double>>());
        const LD kap2 = (LD) (svd2.singularValues()[0] / svd2.singularValues()[n - 1]);
        if (kap2 < 1e6L && all_finite(y3))
        {
            const VecCLD yl = y3.template cast<CLD>();
            const LD e = fnorm(VecCLD(F2 * yl - x.template cast<CLD>())), al = C * n * unit<T>() * (fnorm(F2) * fnorm(yl) + fnorm(x.template cast<CLD>()));
            if (!within(ctx, "solve-residual", e, al)) bad("second-shift-perform_op-not-inv(A-sigma*B)*x", e, al);
        }
    }
    catch (const std::invalid_argument& e) { bad("well-conditioned-shift-rejected", 0, 0); return; }
    ctx.count("applications", 3);
    if (!all_finite(y1)) { bad("non-finite-output-or-other-triangle-read", 0, 0); return; }
    if (bytes_of(y1) != bytes_of(y2)) bad("other-triangle-changes-perform_op", 0, 0);
    const VecCLD yl = y1.template cast<CLD>();
    const LD err = fnorm(VecCLD(Fs * yl - x.template cast<CLD>())), allow = C * n * unit<T>() * (fnorm(Fs) * fnorm(yl) + fnorm(x.template cast<CLD>()));
    if (!within(ctx, "solve-residual", err, allow)) bad("perform_op-not-inv(A-sigma*B)*x", err, allow);
    // the same pencil with A and B handed over as blocks / maps / expressions (dense) or uncompressed / mapped / inner panels / expressions (sparse)
    with_presentations(A1, [&](const auto& ra, const char* pa) {
        with_presentations(B1, [&](const auto& rb, const char* pb) {
            const std::string tag = std::string(pa) + "+" + pb;
            ctx.count("presentation/" + tag);
            DVec<T> y(n);
            try { Op o(ra, rb); o.set_shift(sigma); o.perform_op(x.data(), y.data()); }
            catch (const std::invalid_argument&) { bad(("well-conditioned-shift-rejected/" + tag).c_str(), 0, 0); return; }
            if (!all_finite(y)) { bad(("non-finite-output/" + tag).c_str(), 0, 0); return; }
            const VecCLD yp = y.template cast<CLD>();
            const LD e = fnorm(VecCLD(Fs * yp - x.template cast<CLD>())), al = C * n * unit<T>() * (fnorm(Fs) * fnorm(yp) + fnorm(x.template cast<CLD>()));
            if (!within(ctx, "solve-residual", e, al)) bad(("perform_op-not-inv(A-sigma*B)*x/" + tag).c_str(), e, al);
        });
    });
}

template <int Code>
static void dispatch(vf::Ctx& ctx, int n, int code, bool long_index)
{
    if (code == Code)
    {
        constexpr bool ASp = (Code & 1) != 0, BSp = (Code & 2) != 0;
        constexpr int UA = (Code & 4) ? Upper : Lower, UB = (Code & 8) ? Upper : Lower;
        constexpr int FA = (Code & 16) ? RowMajor : ColMajor, FB = (Code & 32) ? RowMajor : ColMajor;
        const std::string name = std::string(ASp ? "Sparse" : "Dense") + "," + (BSp ? "Sparse" : "Dense") + "," + (UA == Lower ? "Lower" : "Upper") + "," + (UB == Lower ? "Lower" : "Upper") + "," +
                                 (FA == ColMajor ? "ColMajor" : "RowMajor") + "," + (FB == ColMajor ? "ColMajor" : "RowMajor") + (long_index ? ",long" : ",int");
        if constexpr ((Code % 9) == 4 && (ASp || BSp))
        {
            if (long_index) { run_combo<ASp, BSp, UA, UB, FA, FB, long>(ctx, n, name); ctx.count("instance/" + name); return; }
        }
        run_combo<ASp, BSp, UA, UB, FA, FB, int>(ctx, n, name);
        ctx.count("instance/" + name);
        return;
    }
    if constexpr (Code + 1 < 64) dispatch<Code + 1>(ctx, n, code, long_index);
}

long vf_ncases(const vf::Ctx& ctx) { return 64L * (ctx.thorough ? 40 : 6); }

void vf_run_case(vf::Ctx& ctx, long idx)
{
    const int code = (int) (idx % 64);
    const long rep = idx / 64;
    const int n = rep == 0 ? 2 : (int) ctx.rng.range(3, ctx.thorough ? 50 : 25);
    dispatch<0>(ctx, n, code, rep % 3 == 2);
    ctx.count("evals");
    ctx.nontriv("ssi/" + std::to_string(code) + "/" + std::to_string(n) + "/" + std::to_string(idx));
    if (ctx.want_sample) ctx.set_sample(vf::J().kv("instance", "SymShiftInvert").kv("combination_code", code).kv("scalar", Name<T>::s()).kv("n", n).str());
}
