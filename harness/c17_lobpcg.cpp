// C17 - LOBPCGSolver: on success, the k smallest eigenvalues of (A, B) ascending, n x k B-orthonormal eigenvectors, residuals() == A X - B X diag(lambda)
// with every column norm below tol*n; otherwise the status says so.
#define VF_MAIN
#include "common/fachook.hpp"
#include "common/framework.hpp"
#include "common/oracle.hpp"
#include "common/gen.hpp"
#include <Spectra/contrib/LOBPCGSolver.h>
#include <memory>

using T = double;
using namespace vo;
using MatXd = Eigen::MatrixXd;
using Sp = Eigen::SparseMatrix<T>;
const char* vf_driver() { return "c17_lobpcg"; }
static const LD C = 200;

long vf_ncases(const vf::Ctx& ctx) { return ctx.thorough ? 40000 : 4000; }

void vf_run_case(vf::Ctx& ctx, long idx)
{
    auto& r = ctx.rng;
    const int n = (int) r.range(30, ctx.thorough ? 200 : 90);
    // block sizes with 5k < n; k = 1 and k >= 10 included on purpose (the inner solver's constructor rejects them: "no success reported")
    int k;
    { const double x = r.uni(); k = x < 0.08 ? 1 : (x < 0.16 ? (int) r.range(10, std::max(10, (n - 1) / 5)) : (int) r.range(2, std::min(9, (n - 1) / 5))); }
    if (5 * k >= n) k = std::max(1, (n - 1) / 5);
    const bool withB = r.coin(0.5), withP = r.coin(0.5);
    // tolerances down to where the residual blocks that get orthonormalised are themselves of norm ~1e-9 (an absolute threshold anywhere in that path shows there)
    const T tol = r.pick(std::vector<T>{1e-5, 1e-7, 1e-8, 1e-9, 1e-10, 1e-10, 1e-11, 1e-11});
    const int maxit = (int) r.pick(std::vector<long>{5, 40, 150, 150});
    // A with well separated smallest eigenvalues (prescribed), positive definite
    Eigen::VectorXd lam(n);
    for (int i = 0; i < n; i++) lam[i] = i < 2 * k + 2 ? 1.0 + 0.7 * i + 0.1 * r.uni() : 1.0 + 0.7 * (2 * k + 2) + 5.0 * r.uni() + 0.05 * i;
    // symmetric, not necessarily definite: in 40 % of the cases the spectrum is moved so that some of the wanted (smallest) eigenvalues are negative
    const bool indefinite = r.coin(0.4);
    if (indefinite) { const double sh = lam[(int) r.range(0, k)] + 0.35; for (int i = 0; i < n; i++) lam[i] -= sh; }
    MatXd Q = vg::rand_orth(r, n);
    MatXd A = Q * lam.asDiagonal() * Q.transpose();
    for (int j = 0; j < n; j++) for (int i = 0; i < j; i++) A(i, j) = A(j, i);
    MatXd B = MatXd::Identity(n, n);
    if (withB)
    {
        MatXd Qb = vg::rand_orth(r, n);
        Eigen::VectorXd e(n);
        const double lc = r.uni(0, 2);
        for (int i = 0; i < n; i++) e[i] = std::pow(10.0, -lc * i / (n - 1));
        B = Qb * e.asDiagonal() * Qb.transpose();
        for (int j = 0; j < n; j++) for (int i = 0; i < j; i++) B(i, j) = B(j, i);
    }
    Eigen::GeneralizedSelfAdjointEigenSolver<MatXd> ref(A, B, Eigen::EigenvaluesOnly);
    const Eigen::VectorXd sref = ref.eigenvalues();
    Eigen::SelfAdjointEigenSolver<MatXd> eb(B, Eigen::EigenvaluesOnly);
    const LD lminB = (LD) eb.eigenvalues()[0], kB = (LD) eb.eigenvalues()[n - 1] / lminB;
    Sp As = A.sparseView(), Bs = B.sparseView();
    MatXd X0 = vg::rand_gauss(r, n, k);
    // start blocks: gaussian (cold start), or a warm start - the wanted eigenvectors themselves, as another solver would hand them over: in descending order,
    // as a rotated basis of their span, or slightly perturbed - so that convergence is detected at the start-up step or after very few iterations
    const int startkind = (int) r.pick(std::vector<long>{0, 0, 0, 1, 2, 3, 3});
    static const char* SKN[] = {"gaussian", "exact-eigenvectors-descending", "rotated-basis-of-the-wanted-subspace", "perturbed-eigenvectors-descending"};
    int maxit_eff = maxit;
    if (startkind != 0)
    {
        Eigen::GeneralizedSelfAdjointEigenSolver<MatXd> refv(A, B);
        MatXd W = refv.eigenvectors().leftCols(k);
        MatXd Wd(n, k);
        for (int j = 0; j < k; j++) Wd.col(j) = W.col(k - 1 - j);
        if (startkind == 1) X0 = Wd;
        else if (startkind == 2) X0 = W * vg::rand_orth(r, k);
        else X0 = Wd + std::pow(10.0, -(double) r.range(4, 9)) * vg::rand_gauss(r, n, k);
        maxit_eff = (int) r.pick(std::vector<long>{0, 1, 2, 5, 40});
    }
    Sp X0s = X0.sparseView();
    auto info = [&]() { return vf::J().kv("n", n).kv("block_size", k).kv("with_B", withB).kv("with_preconditioner", withP).kv("tol_div_n", (double) tol).kv("maxit", maxit_eff).kv("start", SKN[startkind]).kv("cond_B", (double) kB).kv("indefinite_A", indefinite); };
    // The solver is documented by its behaviour to work on its own copies of A, X, B and the preconditioner: what the caller does with its matrix objects after handing
    // them over (they are temporaries that die at once; they are reassigned for the next problem) must not matter.  Three ownership modes.
    const int own = (int) r.range(0, 2);
    static const char* OWN[] = {"caller-keeps-its-matrices", "matrices-handed-over-as-temporaries", "caller-reassigns-its-matrices-before-compute"};
    ctx.count(std::string("ownership/") + OWN[own]);
    std::unique_ptr<Spectra::LOBPCGSolver<T>> holder(own == 1 ? new Spectra::LOBPCGSolver<T>(Sp(As), Sp(X0s)) : new Spectra::LOBPCGSolver<T>(As, X0s));
    Spectra::LOBPCGSolver<T>& solver = *holder;
    if (withB) { if (own == 1) solver.setB(Sp(Bs)); else solver.setB(Bs); }
    if (withP)
    {
        Sp P(n, n);
        for (int i = 0; i < n; i++) P.insert(i, i) = 1.0 / std::max(std::abs(A(i, i)), 0.1);   // positive (the indefinite case has diagonal entries of either sign)
        if (own == 1) solver.setPreconditioner(Sp(P)); else solver.setPreconditioner(P);
        if (own == 2) { P = Sp(n, n); P.insert(0, 0) = -7.0; }
    }
    if (own == 2)
    {
        // the caller's objects now hold the next problem (another size, other values)
        As = Sp(n + 3, n + 3); As.insert(1, 1) = 7.0;
        Bs = Sp(2, 2);
        X0s = Sp(n + 3, 1); X0s.insert(0, 0) = 1.0;
    }
    std::string outcome = "ok";
    try { solver.compute(maxit_eff, tol); }
    catch (const std::invalid_argument&) { outcome = "invalid_argument"; }
    catch (const std::exception& e) { outcome = std::string("exception:") + typeid(e).name(); }
    ctx.count("evals");
    ctx.count("block_size/" + std::string(k == 1 ? "1" : (k >= 10 ? ">=10" : "2..9")));
    ctx.count(std::string(withB ? "pencil" : "standard") + (withP ? "+preconditioner" : ""));
    ctx.count(indefinite ? "spectrum/indefinite" : "spectrum/positive");
    ctx.count(std::string("start/") + SKN[startkind]);
    if (outcome != "ok") { ctx.count("outcome/" + outcome); ctx.nontriv("exc/" + std::to_string(idx)); if (ctx.want_sample) ctx.set_sample(info().kv("outcome", outcome).str()); return; }   // the exception is "no success reported"
    const bool success = solver.info() == Eigen::Success;
    ctx.count(success ? "outcome/Success" : "outcome/no-success-reported");
    if (success && startkind != 0) ctx.count("success_from_warm_start/maxit=" + std::to_string(maxit_eff));
    auto bad = [&](const char* what, LD obs, LD allow) { ctx.violation(std::string("LOBPCGSolver/") + what, info().kv("observed", obs).kv("allowed", allow).kv("info", (long) solver.info()).str()); };
    if (!success) { if (ctx.want_sample) ctx.set_sample(info().kv("outcome", "no success").kv("info", (long) solver.info()).str()); return; }
    const LD u = unit<T>(), tolL2 = (LD) tol * n;
    Eigen::VectorXd ev = solver.eigenvalues();
    MatXd X = solver.eigenvectors(), R = solver.residuals();
    const MatXd Xint = MatXd(SpectraVerifAccess::lobpcg_X(solver));
    if (ev.size() != k) { bad("eigenvalues-size", (LD) ev.size(), (LD) k); return; }
    if (X.rows() != n || X.cols() != k) { bad("eigenvectors-not-n-by-k", (LD) X.rows() * 1000 + X.cols(), (LD) n * 1000 + k); return; }
    if (!all_finite(ev) || !all_finite(X) || !all_finite(R)) { bad("non-finite", 0, 0); return; }
    for (int i = 0; i + 1 < k; i++) if (ev[i] > ev[i + 1]) { bad("eigenvalues-not-ascending", (LD) ev[i], (LD) ev[i + 1]); break; }
    const MatLD AL = A.cast<LD>(), BL = B.cast<LD>(), XL = X.cast<LD>();
    // eigenvalue of a symmetric definite pencil differs from a true one by at most ||r||_{B^-1} / ||x||_B
    for (int i = 0; i < k; i++)
    {
        const LD al = 4 * tolL2 / std::sqrt(lminB) + C * n * u * std::abs((LD) sref[n - 1]);
        if (!within(ctx, "eigenvalue-vs-k-smallest", std::abs((LD) ev[i] - (LD) sref[i]), al)) bad("not-the-k-smallest-eigenvalues", std::abs((LD) ev[i] - (LD) sref[i]), al);
    }
    MatLD Gm = XL.transpose() * BL * XL;
    Gm.diagonal().array() -= LD(1);
    // X is updated from the coefficients of an inner generalized eigensolve that is itself only accurate to its own tolerance (1e-10): the B-orthonormality of X
    // is maintained to that level per iteration, not to rounding level
    // ... and eigenvectors that are asked for to tol*n are B-orthonormal to that accuracy (relative to the scale of the pencil), not beyond
    const LD oal = (C * n * u + 1e-9L) * kB * maxit + tolL2 / std::abs((LD) sref[n - 1]);
    if (!within(ctx, "B-orthonormal", Gm.cwiseAbs().maxCoeff(), oal)) bad("eigenvectors-not-B-orthonormal", Gm.cwiseAbs().maxCoeff(), oal);
    const MatLD RR = AL * XL - BL * XL * ev.cast<LD>().asDiagonal();
    for (int i = 0; i < k; i++)
    {
        const LD rn = RR.col(i).norm();
        if (!within(ctx, "pencil-residual", rn, tolL2 + C * n * u * fnorm(AL) * maxit)) bad("pencil-residual-not-below-tol*n", rn, tolL2);
        if (!((LD) R.col(i).norm() < tolL2)) bad("residuals()-column-not-below-tol*n", (LD) R.col(i).norm(), tolL2);
    }
    // residuals() is A X - B X diag(lambda) for the iterate X (read through the guarded friend)
    {
        const MatLD Xi = Xint.cast<LD>();
        const MatLD Ri = AL * Xi - BL * Xi * ev.cast<LD>().asDiagonal();
        const LD d = fnorm(MatLD(R.cast<LD>() - Ri)), al = C * n * u * fnorm(AL) * kB * maxit;
        if (!within(ctx, "residuals()-identity", d, al)) bad("residuals()-differs-from-AX-BXdiag(lambda)", d, al);
    }
    ctx.nontriv(std::to_string(n) + "/" + std::to_string(k) + "/" + std::to_string(withB) + std::to_string(withP) + "/" + std::to_string(tol) + "/" + std::to_string(A(0, 0)));
    if (ctx.want_sample) ctx.set_sample(info().kv("outcome", "Success").kv("smallest", (double) ev[0]).str());
}
